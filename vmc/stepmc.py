"""Explicit-state machinery over the real run_one_step() (DESIGN 2.2 'stepmc').

Adapters know, per algorithm, how to build a template through the REAL constructor, which designs
get their regions rewritten by a step, how to make the stub display a chosen region, how to inject
and read back the state.  Transitions always call the real `run_one_step()`.
"""
import copy
import itertools

import numpy as np

from vmc import cones, seams

# name -> (family, region kind)
ALGS = {
    "PaVeBa": ("paveba", "ell"),
    "PaVeBaGP-IH": ("paveba", "rect"),
    "PaVeBaGP-DE": ("paveba", "ell"),
    "PartialGP-rect": ("paveba", "rect"),
    "PartialGP-ell": ("paveba", "ell"),
    "VOGP": ("vogp", "rect"),
    "EpsilonPAL": ("vogp", "rect"),
    "Auer": ("auer", "rect"),
}
ORTHANT_ONLY = {"EpsilonPAL", "Auer"}


def family(alg_name):
    return ALGS[alg_name][0]


def region_kind(alg_name):
    return ALGS[alg_name][1]


def build_template(alg_name, cone_spec, K, m, eps, delta=0.05, noise_var=0.01, contraction=1.0, batch_size=1,
                   stub=True, out_data=None, in_data=None, costs=None, cost_budget=None, use_empirical_beta=False,
                   fit=False):
    """Real constructor on an injected K-design dataset; with stub=True the model is then replaced
    by a StubModel and the problem wrapped by a RecordingProblem."""
    import vopy.algorithms as A

    if in_data is None:
        in_data = seams.default_inputs(K, 1)
    if out_data is None:
        out_data = np.zeros((K, m)) + 0.01 * np.arange(K)[:, None]  # distinct rows (GP constructors dislike constant Y only mildly)
    name = seams.inject_dataset(in_data, out_data)
    order = cones.make_order(cone_spec) if cone_spec is not None else None

    def construct(eps=eps, delta=delta):
        if alg_name == "PaVeBa":
            return A.PaVeBa(eps, delta, name, order, noise_var, conf_contraction=contraction)
        if alg_name == "PaVeBaGP-IH":
            return A.PaVeBaGP(eps, delta, name, order, noise_var, conf_contraction=contraction, type="IH", batch_size=batch_size)
        if alg_name == "PaVeBaGP-DE":
            return A.PaVeBaGP(eps, delta, name, order, noise_var, conf_contraction=contraction, type="DE", batch_size=batch_size)
        if alg_name == "PartialGP-rect":
            return A.PaVeBaPartialGP(eps, delta, name, order, noise_var, conf_contraction=contraction, costs=costs,
                                     cost_budget=cost_budget, confidence_type="hyperrectangle", batch_size=batch_size)
        if alg_name == "PartialGP-ell":
            return A.PaVeBaPartialGP(eps, delta, name, order, noise_var, conf_contraction=contraction, costs=costs,
                                     cost_budget=cost_budget, confidence_type="hyperellipsoid", batch_size=batch_size)
        if alg_name == "VOGP":
            return A.VOGP(eps, delta, name, order, noise_var, conf_contraction=contraction, batch_size=batch_size)
        if alg_name == "EpsilonPAL":
            return A.EpsilonPAL(eps, delta, name, noise_var, conf_contraction=contraction, batch_size=batch_size)
        if alg_name == "Auer":
            return A.Auer(eps, delta, name, noise_var, conf_contraction=contraction, use_empirical_beta=use_empirical_beta)
        raise ValueError(alg_name)

    if stub and not fit:
        with seams.no_fit():
            # a decoy instance with a different (larger) epsilon and delta is built first and thrown away:
            # nothing may leak from one instance to the next (module-level caches, shared mutable defaults)
            try:
                construct(eps * 3.0, min(0.9, delta * 2.0))
            except Exception:
                pass
            alg = construct()
    else:
        alg = construct()
    alg._verif_name = alg_name
    if stub:
        alg.model = seams.StubModel(alg.design_space.points, m, honour_track_variances=(alg_name == "Auer"))
        if alg_name == "Auer":
            alg.model.track_variances = bool(use_empirical_beta)
        alg.problem = seams.RecordingProblem(alg.problem)
    return alg


# ---------------------------------------------------------------------------------------------
# scale / display


def next_scale(alg):
    """the scale the next run_one_step() will hand to design_space.update (scalar), computed by the
    algorithm's own schedule function on a shallow copy"""
    name = alg._verif_name
    c = copy.copy(alg)
    if family(name) in ("paveba",):
        c.round = alg.round + 1
        return float(c.compute_radius() if name == "PaVeBa" else c.compute_alpha())
    if family(name) == "vogp":
        return float(c.compute_beta())
    raise ValueError(name)


def active_set(alg):
    name = alg._verif_name
    fam = family(name)
    if fam == "paveba":
        return set(alg.S) | set(alg.U)
    if fam == "vogp":
        return set(alg.S) | set(alg.P)
    return set(alg.S)


def set_display(alg, targets):
    """targets: {design: ("rect", lo, hi) | ("ell", c, Sigma, r)}; arranges the stub so that the next
    step displays exactly these regions for the designs it rewrites."""
    name = alg._verif_name
    stub = alg.model
    if family(name) == "auer":
        # Auer: widths come from its own schedule (x per-design variance if empirical); only centres
        # and variances are the environment's to choose
        for i, t in targets.items():
            stub.mean[i] = np.asarray(t[1], float)
            if len(t) > 2 and t[2] is not None:
                stub.cov[i] = np.diag(np.asarray(t[2], float))
        return
    s = next_scale(alg)
    for i, t in targets.items():
        if t[0] == "rect":
            lo, hi = np.asarray(t[1], float), np.asarray(t[2], float)
            stub.mean[i] = (lo + hi) / 2.0
            stub.cov[i] = np.diag(((hi - lo) / 2.0 / s) ** 2)
        else:
            c, S, r = np.asarray(t[1], float), np.asarray(t[2], float), float(t[3])
            stub.mean[i] = c
            stub.cov[i] = S * (r / s) ** 2


def set_region_direct(alg, i, t):
    """frozen region (a design whose region the next step does not rewrite)"""
    from vopy.confidence_region import EllipsoidalConfidenceRegion, RectangularConfidenceRegion

    m = alg.m
    if t[0] == "rect":
        alg.design_space.confidence_regions[i] = RectangularConfidenceRegion(m, np.array(t[1], float), np.array(t[2], float))
    else:
        alg.design_space.confidence_regions[i] = EllipsoidalConfidenceRegion(m, np.array(t[1], float), np.array(t[2], float), float(t[3]))


def read_regions(alg, which=None):
    from vopy.confidence_region import RectangularConfidenceRegion

    out = {}
    regs = alg.design_space.confidence_regions
    for i in (range(len(regs)) if which is None else which):
        r = regs[i]
        if isinstance(r, RectangularConfidenceRegion):
            out[i] = ("rect", np.array(r.lower, float), np.array(r.upper, float))
        else:
            out[i] = ("ell", np.array(r.center, float), np.array(r.sigma, float), float(np.asarray(r.alpha)))
    return out


def inject(alg, S, P, U=None, rnd=None):
    alg.S = set(S)
    alg.P = set(P)
    if family(alg._verif_name) == "paveba":
        alg.U = set(U or ())
    if rnd is not None:
        alg.round = rnd


def snapshot(alg):
    d = {"S": frozenset(alg.S), "P": frozenset(alg.P), "round": alg.round, "sample_count": alg.sample_count}
    d["U"] = frozenset(getattr(alg, "U", ()))
    if hasattr(alg, "total_cost"):
        d["total_cost"] = float(alg.total_cost)
    return d


# ---------------------------------------------------------------------------------------------
# compositions for one-step mode


def compositions(alg_name, K):
    fam = family(alg_name)
    roles = {"paveba": ("S", "PU", "PF", "D"), "vogp": ("S", "P", "D"), "auer": ("S", "D")}[fam]
    for combo in itertools.product(roles, repeat=K):
        if "S" not in combo:
            continue
        yield combo


def roles_to_sets(combo):
    S = {i for i, r in enumerate(combo) if r == "S"}
    P = {i for i, r in enumerate(combo) if r in ("P", "PU", "PF")}
    U = {i for i, r in enumerate(combo) if r == "PU"}
    return S, P, U
