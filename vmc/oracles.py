"""Independent reference oracles.  Nothing here calls cvxpy, scipy.optimize or any VOPy routine.

Three-valued verdicts: +1 = true with margin, -1 = false with margin, 0 = within tolerance of the
boundary (the implementation is not compared there).  Margins are evaluated in float64 on closed
forms / vertex enumerations whose rounding error (<= 1e-13 * scale) is far below the tolerance
tau = 1e-6 * max(1, |data|), so "with margin" verdicts are exact statements about the real-number
problem.  Exact rational variants (fractions.Fraction) are provided where the property demands the
boundary itself.
"""
import itertools
from fractions import Fraction

import numpy as np

TAU_REL = 1e-6


def tau_for(*arrays):
    m = 1.0
    for a in arrays:
        a = np.asarray(a, dtype=float)
        if a.size:
            m = max(m, float(np.max(np.abs(a))))
    return TAU_REL * m


def tri(value, tau):
    """three-valued sign of `value >= 0`"""
    if value > tau:
        return 1
    if value < -tau:
        return -1
    return 0


# ---------------------------------------------------------------------------------------------
# hyper-rectangles


def slack_vec(slack, m):
    s = np.asarray(slack, dtype=float).reshape(-1)
    if s.size == 1:
        return np.full(m, float(s[0]))
    return s


def rect_dominated_value(W, l1, u1, l2, u2, slack):
    """min_n min_{z in R1, z' in R2} w_n . (z' + s - z);   'R1 is dominated by R2' <=> value >= 0.
    Separable per coordinate: the minimiser picks, per coordinate d, z'_d - z_d = l2_d - u1_d when
    w_nd >= 0 and u2_d - l1_d otherwise."""
    W = np.asarray(W, float)
    l1, u1, l2, u2 = (np.asarray(x, float) for x in (l1, u1, l2, u2))
    s = slack_vec(slack, W.shape[1])
    lo = l2 - u1
    hi = u2 - l1
    best = np.inf
    for w in W:
        v = float(np.sum(np.where(w >= 0, w * lo, w * hi)) + w @ s)
        best = min(best, v)
    return best


def rect_dominated_exact(W, l1, u1, l2, u2, slack):
    """Exact rational version (Fraction(float) is exact); returns the exact min value."""
    F = Fraction
    m = len(l1)
    s = [F(float(x)) for x in slack_vec(slack, m)]
    best = None
    for w in np.asarray(W, float):
        v = F(0)
        for d in range(m):
            wd = F(float(w[d]))
            lo = F(float(l2[d])) - F(float(u1[d]))
            hi = F(float(u2[d])) - F(float(l1[d]))
            v += wd * (lo if wd >= 0 else hi) + wd * s[d]
        best = v if best is None or v < best else best
    return best


def _lp_max_min(W, lo, hi, shift):
    """v* = max_{d in [lo,hi]} min_n w_n.(d - shift), by enumerating the basic solutions of
    {(d,t): t <= w_n.(d-shift), lo <= d <= hi}.  Polyhedron is pointed (box), optimum finite, so it is
    attained at a vertex = m+1 linearly independent active constraints."""
    W = np.asarray(W, float)
    K, m = W.shape
    lo = np.asarray(lo, float)
    hi = np.asarray(hi, float)
    shift = np.asarray(shift, float)
    # constraints  A x <= b  with x = (d, t)
    rows, rhs = [], []
    for n in range(K):
        rows.append(np.concatenate([-W[n], [1.0]]))
        rhs.append(-float(W[n] @ shift))
    for d in range(m):
        e = np.zeros(m + 1)
        e[d] = 1.0
        rows.append(e.copy())
        rhs.append(hi[d])
        rows.append(-e)
        rhs.append(-lo[d])
    A = np.array(rows)
    b = np.array(rhs)
    scale = max(1.0, float(np.max(np.abs(b))))
    ftol = 1e-9 * scale
    best = -np.inf
    best_x = None
    for idx in itertools.combinations(range(len(A)), m + 1):
        Ai = A[list(idx)]
        # t must appear: at least one cone row
        if idx[0] >= K:
            continue
        try:
            if abs(np.linalg.det(Ai)) < 1e-12:
                continue
            x = np.linalg.solve(Ai, b[list(idx)])
        except np.linalg.LinAlgError:
            continue
        if np.all(A @ x <= b + ftol):
            if x[-1] > best:
                best = float(x[-1])
                best_x = x
    return best, best_x


class _LPFamily:
    """Vectorised version of _lp_max_min for a fixed cone matrix: the constraint matrix of
    {(d,t): t <= w_n.(d-shift), lo <= d <= hi} depends on W only, so every basis (m+1 linearly
    independent rows) is inverted once; each query is then a handful of small matrix products."""

    _cache = {}

    def __init__(self, W):
        W = np.asarray(W, float)
        K, m = W.shape
        rows = []
        for n in range(K):
            rows.append(np.concatenate([-W[n], [1.0]]))
        for d in range(m):
            e = np.zeros(m + 1)
            e[d] = 1.0
            rows.append(e.copy())
            rows.append(-e)
        self.A = np.array(rows)
        self.W, self.K, self.m = W, K, m
        bases, invs = [], []
        for idx in itertools.combinations(range(len(self.A)), m + 1):
            if idx[0] >= K:
                continue
            Ai = self.A[list(idx)]
            if abs(np.linalg.det(Ai)) < 1e-12:
                continue
            bases.append(idx)
            invs.append(np.linalg.inv(Ai))
        self.bases = np.array(bases)
        self.invs = np.array(invs)

    @classmethod
    def of(cls, W):
        key = np.asarray(W, float).tobytes() + bytes(np.asarray(W).shape)
        if key not in cls._cache:
            cls._cache[key] = cls(W)
        return cls._cache[key]

    def max_min(self, lo, hi, shift):
        """lo, hi: (N, m) arrays (or (m,)); returns array (N,) of max_{d in box} min_n w_n.(d - shift)"""
        lo = np.atleast_2d(np.asarray(lo, float))
        hi = np.atleast_2d(np.asarray(hi, float))
        N = len(lo)
        shift = np.asarray(shift, float)
        b = np.empty((N, self.K + 2 * self.m))
        b[:, : self.K] = -(self.W @ shift)[None, :]
        for d in range(self.m):
            b[:, self.K + 2 * d] = hi[:, d]
            b[:, self.K + 2 * d + 1] = -lo[:, d]
        scale = np.maximum(1.0, np.max(np.abs(b), axis=1))
        bb = b[:, self.bases]                                   # (N, nb, m+1)
        X = np.einsum("bij,nbj->nbi", self.invs, bb)            # (N, nb, m+1)
        AX = np.einsum("ci,nbi->nbc", self.A, X)                # (N, nb, ncons)
        feas = np.all(AX <= b[:, None, :] + (1e-9 * scale)[:, None, None], axis=2)
        t = np.where(feas, X[:, :, -1], -np.inf)
        return t.max(axis=1)


def rect_covered_value(W, l1, u1, l2, u2, slack):
    """v* = max_{z in R1, z' in R2} min_n w_n.(z' - z - s);  'R1 can be covered by R2' <=> v* >= 0."""
    W = np.asarray(W, float)
    l1, u1, l2, u2 = (np.asarray(x, float) for x in (l1, u1, l2, u2))
    s = slack_vec(slack, W.shape[1])
    return float(_LPFamily.of(W).max_min(l2 - u1, u2 - l1, s)[0])


def rect_pess_values(W, l1, u1, l2, u2):
    """For each vertex v of R1: max_{q in R2} min_n w_n.(v - q).  'R1 pessimistically dominates R2'
    (every point of R1 dominates some point of R2) <=> all values >= 0."""
    l1, u1, l2, u2 = (np.asarray(x, float) for x in (l1, u1, l2, u2))
    m = len(l1)
    V = np.array([np.where(np.array(bits) == 1, u1, l1) for bits in itertools.product((0, 1), repeat=m)])
    return list(_LPFamily.of(W).max_min(V - u2[None, :], V - l2[None, :], np.zeros(m)))


# ---------------------------------------------------------------------------------------------
# ellipsoids   E = {c + x : x^T Sigma^-1 x <= alpha^2}


def ell_support_radius(y, Sigma, alpha):
    y = np.asarray(y, float)
    return float(alpha) * float(np.sqrt(max(0.0, y @ np.asarray(Sigma, float) @ y)))


def ell_dominated_values(W, c1, S1, a1, c2, S2, a2, slack):
    """per facet n:  min_{z in E1, z' in E2} w_n.(z'-z) + slack_n  (dominated <=> all >= 0)"""
    W = np.asarray(W, float)
    K = W.shape[0]
    s = np.asarray(slack, float).reshape(-1)
    if s.size == 1:
        s = np.full(K, float(s[0]))
    c1, c2 = np.asarray(c1, float), np.asarray(c2, float)
    out = []
    for n in range(K):
        w = W[n]
        out.append(float(w @ (c2 - c1)) - ell_support_radius(w, S2, a2) - ell_support_radius(w, S1, a1) + s[n])
    return out


def _simplex_points(K, steps):
    for comp in itertools.product(range(steps + 1), repeat=K - 1):
        if sum(comp) <= steps:
            lam = np.array(list(comp) + [steps - sum(comp)], float) / steps
            yield lam


def ell_covered_bounds(W, c1, S1, a1, c2, S2, a2, slack):
    """Certified bounds (lower, upper) on  v* = max_{z in E1, z' in E2} min_n (w_n.(z'-z) - s_n).
    upper: any lambda in the simplex gives  g(lambda) = h(W^T lambda) - lambda.s >= v*  (h = support
    function of E2 (-) E1);  lower: any feasible difference vector d gives min_n(w_n.d - s_n) <= v*."""
    W = np.asarray(W, float)
    K, m = W.shape
    s = np.asarray(slack, float).reshape(-1)
    if s.size == 1:
        s = np.full(K, float(s[0]))
    c1, c2 = np.asarray(c1, float), np.asarray(c2, float)
    S1, S2 = np.asarray(S1, float), np.asarray(S2, float)
    dc = c2 - c1

    def g(lam):
        y = W.T @ lam
        return float(y @ dc) + ell_support_radius(y, S2, a2) + ell_support_radius(y, S1, a1) - float(lam @ s)

    def witness(lam):
        y = W.T @ lam
        d = dc.copy()
        for S, a in ((S2, a2), (S1, a1)):
            q = float(y @ S @ y)
            if q > 0:
                d = d + float(a) * (S @ y) / np.sqrt(q)
        return float(np.min(W @ d - s)), d

    # deterministic search over the simplex: coarse grid, then repeated local refinement
    best_lam, best_g = None, np.inf
    steps = 8 if K <= 3 else (4 if K <= 6 else 3)
    for lam in _simplex_points(K, steps):
        v = g(lam)
        if v < best_g:
            best_g, best_lam = v, lam
    lower = -np.inf
    lw, _ = witness(best_lam)
    lower = max(lower, lw)
    lower = max(lower, float(np.min(W @ dc - s)))  # centre difference is feasible
    h = 1.0 / steps
    for _ in range(40):
        improved = False
        for i in range(K):
            for j in range(K):
                if i == j:
                    continue
                lam = best_lam.copy()
                t = min(h, lam[j])
                if t <= 0:
                    continue
                lam[i] += t
                lam[j] -= t
                v = g(lam)
                if v < best_g - 1e-15:
                    best_g, best_lam, improved = v, lam, True
        lw, _ = witness(best_lam)
        lower = max(lower, lw)
        if not improved:
            h *= 0.5
            if h < 1e-9:
                break
    return lower, best_g


# ---------------------------------------------------------------------------------------------
# least-distance problems by exhaustive active-set enumeration (KKT certificates)


def min_norm_point(W, b):
    """argmin ||z||  s.t.  W z >= b.   Returns (z, mu) with z = W^T mu, mu >= 0, mu_n (w_n z - b_n) = 0.
    Exhaustive over active sets A: z = W_A^T mu_A, (W_A W_A^T) mu_A = b_A."""
    W = np.asarray(W, float)
    b = np.asarray(b, float).reshape(-1)
    K, m = W.shape
    scale = max(1.0, float(np.max(np.abs(b)))) if b.size else 1.0
    tol = 1e-9 * scale
    if np.all(b <= tol):
        return np.zeros(m), np.zeros(K)
    best = None
    for r in range(1, min(K, m) + 1):
        for A in itertools.combinations(range(K), r):
            WA = W[list(A)]
            G = WA @ WA.T
            if abs(np.linalg.det(G)) < 1e-13:
                continue
            mu = np.linalg.solve(G, b[list(A)])
            if np.any(mu < -tol):
                continue
            z = WA.T @ mu
            if np.all(W @ z >= b - tol):
                nz = float(np.linalg.norm(z))
                if best is None or nz < best[0]:
                    full = np.zeros(K)
                    full[list(A)] = mu
                    best = (nz, z, full)
    if best is None:
        raise ArithmeticError("min_norm_point: no KKT point found (cone without interior?)")
    return best[1], best[2]


def cone_alpha(W, n):
    """alpha_n = max{w_n.x : Wx >= 0, ||x|| <= 1} = || P_C(w_n) || = min_{lam >= 0} ||w_n + W^T lam||.
    Returns (alpha, x_primal (unit, in C), lam_dual)."""
    W = np.asarray(W, float)
    K, m = W.shape
    w = W[n]
    best = None
    for r in range(0, min(K, m) + 1):
        for A in itertools.combinations(range(K), r):
            if r == 0:
                lam = np.zeros(K)
                x = w.copy()
            else:
                WA = W[list(A)]
                G = WA @ WA.T
                if abs(np.linalg.det(G)) < 1e-13:
                    continue
                la = np.linalg.solve(G, -WA @ w)
                if np.any(la < -1e-10):
                    continue
                lam = np.zeros(K)
                lam[list(A)] = la
                x = w + WA.T @ la
            if np.all(W @ x >= -1e-10):
                nx = float(np.linalg.norm(x))
                if best is None or nx < best[0] - 1e-14:
                    best = (nx, x, lam)
    if best is None:
        raise ArithmeticError("cone_alpha: no KKT point")
    nx, x, lam = best
    xp = x / nx if nx > 0 else x
    return nx, xp, lam


def cone_alpha_vec(W):
    return np.array([cone_alpha(W, n)[0] for n in range(np.asarray(W).shape[0])])


def u_star(W):
    W = np.asarray(W, float)
    z, mu = min_norm_point(W, np.ones(W.shape[0]))
    d1 = float(np.linalg.norm(z))
    return z / d1, d1, mu


# ---------------------------------------------------------------------------------------------
# points: dominance, Pareto sets, gaps, epsilon-cover


def dominates_exact(W, a, b):
    """a dominates b  <=>  W (a-b) >= 0, exactly on the float data."""
    F = Fraction
    for w in np.asarray(W, float):
        v = F(0)
        for d in range(len(a)):
            v += F(float(w[d])) * (F(float(a[d])) - F(float(b[d])))
        if v < 0:
            return False
    return True


def dom_matrix_exact(W, V):
    n = len(V)
    return [[dominates_exact(W, V[j], V[i]) for j in range(n)] for i in range(n)]  # D[i][j]: j dominates i


def gap_values(W, alpha, V):
    """Delta*_i = max_j min_n max(0, w_n.(v_j - v_i)) / alpha_n"""
    W = np.asarray(W, float)
    V = np.asarray(V, float)
    al = np.asarray(alpha, float).reshape(-1)
    out = np.zeros(len(V))
    for i in range(len(V)):
        for j in range(len(V)):
            p = W @ (V[j] - V[i])
            out[i] = max(out[i], float(np.min(np.maximum(p, 0) / al)))
    return out


def cover_distance(W, vi, vj):
    """min{||u|| : u in C, v_j + u - v_i in C}  (vi is eps-covered by vj  <=>  distance <= eps)"""
    W = np.asarray(W, float)
    b = np.maximum(0.0, W @ (np.asarray(vi, float) - np.asarray(vj, float)))
    z, _ = min_norm_point(W, b)
    return float(np.linalg.norm(z))
