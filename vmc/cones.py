"""The finite cone family used instead of "random polyhedral cones" (DESIGN 2.3).

Every entry is (name, spec) where spec can be turned into a real VOPy order object by `make_order`
(in the process that needs it; specs are picklable, order objects are built lazily and cached).
"""
import itertools

import numpy as np

_CACHE = {}


def make_order(spec):
    """spec: ("comp", m) | ("theta", deg) | ("theta3", deg) | ("c3d", kind) | ("ice", deg, K) |
    ("W", tuple-of-rows)"""
    key = repr(spec)
    if key in _CACHE:
        return _CACHE[key]
    from vopy.order import (
        ComponentwiseOrder,
        ConeOrder3D,
        ConeOrder3DIceCream,
        ConeTheta2DOrder,
        PolyhedralConeOrder,
    )
    from vopy.ordering_cone import OrderingCone

    kind = spec[0]
    if kind == "comp":
        o = ComponentwiseOrder(spec[1])
    elif kind == "theta":
        o = ConeTheta2DOrder(spec[1])
    elif kind == "theta3":
        # the theta cone with a redundant third facet (the bisector direction): K = 3 != m = 2
        from vopy.utils import get_2d_w

        W = get_2d_w(spec[1])
        extra = np.array([1.0, 1.0]) / np.sqrt(2.0)
        o = PolyhedralConeOrder(OrderingCone(np.vstack([W, extra])))
    elif kind == "c3d":
        o = ConeOrder3D(spec[1])
    elif kind == "ice":
        o = ConeOrder3DIceCream(spec[1], spec[2])
    elif kind == "Wint":
        # integer-DTYPE cone matrix, as in the class docstring (np.array([[1, 0], [0, 1]]))
        o = PolyhedralConeOrder(OrderingCone(np.array(spec[1], dtype=int)))
    elif kind == "W":
        W = np.array(spec[1], dtype=float)
        if len(spec) > 2 and spec[2] == "unit":
            W = W / np.linalg.norm(W, axis=1, keepdims=True)
        o = PolyhedralConeOrder(OrderingCone(W))
    else:
        raise ValueError(spec)
    _CACHE[key] = o
    return o


def W_of(spec):
    return make_order(spec).ordering_cone.W


def integer_cones_2d(entries=(-1, 0, 1, 2)):
    """All pointed 2-D two-facet cones with non-empty interior and integer rows from `entries`,
    deduplicated up to row order and positive row scaling."""
    seen, out = set(), []
    rows = [r for r in itertools.product(entries, repeat=2) if r != (0, 0)]

    def prim(r):
        g = np.gcd.reduce([abs(x) for x in r])
        return tuple(int(x // g) for x in r)

    rows = sorted(set(prim(r) for r in rows))
    for a, b in itertools.combinations(rows, 2):
        det = a[0] * b[1] - a[1] * b[0]
        if det == 0:
            continue  # parallel or opposite normals: half-plane / line (not pointed or no interior)
        key = tuple(sorted([a, b]))
        if key in seen:
            continue
        seen.add(key)
        out.append(("W", (a, b)))
    return out


def thetas(ctx_thorough, seed=0):
    if ctx_thorough:
        return [10 * k for k in range(1, 18)]
    base = [30, 45, 60, 90, 120, 135, 150]
    return base


def family_2d(thorough=False, seed=0, with_k3=True, with_int=True):
    fam = [("comp", 2)] + [("theta", t) for t in thetas(thorough, seed)]
    if with_k3:
        fam += [("theta3", t) for t in ((60, 90, 135) if not thorough else (30, 60, 90, 120, 150))]
    if with_int:
        ints = integer_cones_2d()
        if not thorough:
            # a fixed spread: acute, right, obtuse, skewed
            pick = [(( -1, 2), (2, -1)), ((0, 1), (1, 0)), ((1, 1), (-1, 2)), ((1, 2), (2, 1)),
                    ((-1, 1), (1, 0)), ((0, 1), (1, -1)), ((1, 2), (1, 0)), ((-1, 2), (1, 1))]
            keys = {tuple(sorted(p)) for p in pick}
            ints = [c for c in ints if tuple(sorted(c[1])) in keys]
        fam += ints
    return fam


def family_3d(thorough=False):
    fam = [("comp", 3), ("c3d", "acute"), ("c3d", "right"), ("c3d", "obtuse")]
    ks = (3, 4, 6, 8) if thorough else (4, 6)
    degs = (20, 30, 45) if thorough else (30,)
    fam += [("ice", d, k) for d in degs for k in ks]
    return fam


def name(spec):
    if spec[0] == "Wint":
        return "Wint" + repr(spec[1]).replace(" ", "")
    if spec[0] == "W":
        return "W" + repr(spec[1]).replace(" ", "")
    return "-".join(str(s) for s in spec)


def is_2x2(spec):
    W = W_of(spec)
    return W.shape == (2, 2)


def cone_class(spec):
    """coarse class used in known-finding keys"""
    W = W_of(spec)
    K, m = W.shape
    if K != m:
        return f"K{K}m{m}"
    if m == 2:
        c = float(W[0] @ W[1]) / (np.linalg.norm(W[0]) * np.linalg.norm(W[1]))
        # angle between facet normals = 180 - opening angle
        if c > 1e-9:
            return "obtuse-2D"
        if c < -1e-9:
            return "acute-2D"
        return "right-2D"
    return f"{m}D"
