"""Dyadic lattices, scale ladder and seed-derived embeddings (DESIGN 2.2 'lattice').

The seed never samples: it selects which *embedding* (translation by a dyadic offset, member of the
scale ladder first) of the same exhaustive lattice is explored.
"""
import itertools

import numpy as np

# powers of two near 1, 1e-2, 1e2, 1e-4: lattice arithmetic stays exact in float64
SCALES = [1.0, 2.0**-7, 2.0**7, 2.0**-13]


def scales_for(thorough, seed, quick_n=2):
    if thorough:
        return list(SCALES)
    k = seed % len(SCALES)
    rot = SCALES[k:] + SCALES[:k]
    return rot[:quick_n]


def offset_for(seed, m, step):
    """a dyadic translation (multiples of step/4) derived from the seed; exact in float"""
    vals = []
    s = seed * 2654435761 % (2**32)
    for d in range(m):
        s = (s * 1103515245 + 12345) % (2**31)
        vals.append(((s >> 8) % 9 - 4) * step / 4.0)
    return np.array(vals)


def grid(m, lo, hi, step=1.0):
    axis = [lo + i * step for i in range(int(round((hi - lo) / step)) + 1)]
    return [np.array(p, dtype=float) for p in itertools.product(axis, repeat=m)]


def rectangles(m, n, degenerate=False):
    """all axis-aligned boxes with integer corners in {0..n}^m; lower <= upper (strict unless
    `degenerate`)"""
    ivs = [(a, b) for a in range(n + 1) for b in range(n + 1) if (a <= b if degenerate else a < b)]
    out = []
    for combo in itertools.product(ivs, repeat=m):
        lo = np.array([c[0] for c in combo], float)
        hi = np.array([c[1] for c in combo], float)
        out.append((lo, hi))
    return out


def chunks(seq, n):
    seq = list(seq)
    k = max(1, (len(seq) + n - 1) // n)
    return [seq[i : i + k] for i in range(0, len(seq), k)]
