"""Independent reference transitions of the elimination algorithms (DESIGN 3/C02, C03).

Input: the regions displayed by the design space after the step (read back from the real object),
the sets before/after, the cone matrix and epsilon.  Output: three-valued stage decisions that are
compared with what the real run_one_step() did.  Uses only vmc.oracles.
"""
import numpy as np

from vmc import oracles


def _all_arrays(regions, ids):
    arrs = []
    for i in ids:
        r = regions[i]
        arrs.extend([r[1], r[2]] if r[0] == "rect" else [r[1], np.sqrt(np.abs(np.diag(r[2]))) * r[3]])
    return arrs


def dominated3(W, Ri, Rj, slack, tau):
    """+1: every point of Rj (+slack) dominates every point of Ri, with margin"""
    if Ri[0] == "rect":
        v = oracles.rect_dominated_value(W, Ri[1], Ri[2], Rj[1], Rj[2], slack)
    else:
        v = min(oracles.ell_dominated_values(W, Ri[1], Ri[2], Ri[3], Rj[1], Rj[2], Rj[3], slack))
    return oracles.tri(v, tau)


def covered3(W, Ri, Rj, slack, tau):
    """+1: some point of Rj dominates some point of Ri by the slack, with margin"""
    if Ri[0] == "rect":
        v = oracles.rect_covered_value(W, Ri[1], Ri[2], Rj[1], Rj[2], slack)
        return oracles.tri(v, tau)
    lo, hi = oracles.ell_covered_bounds(W, Ri[1], Ri[2], Ri[3], Rj[1], Rj[2], Rj[3], slack)
    return 1 if lo > tau else (-1 if hi < -tau else 0)


def pess3(W, Rj, Ri, tau):
    """+1: every point of Rj dominates some point of Ri (Rj pessimistically dominates Ri)"""
    vals = oracles.rect_pess_values(W, Rj[1], Rj[2], Ri[1], Ri[2])
    v = min(vals)
    return oracles.tri(v, tau)


def exists3(vals):
    vals = list(vals)
    if any(v == 1 for v in vals):
        return 1
    if all(v == -1 for v in vals):
        return -1
    return 0


def all3(vals):
    vals = list(vals)
    if any(v == -1 for v in vals):
        return -1
    if all(v == 1 for v in vals):
        return 1
    return 0


def tau_of(regions, ids):
    return oracles.tau_for(*_all_arrays(regions, ids))


# ---------------------------------------------------------------------------------------------


def paveba_reference(W, eps, regions, before, after, kind, rect_shift=None):
    """returns dict with stage-wise three-valued expectations and observations"""
    S0, P0, U0 = set(before["S"]), set(before["P"]), set(before["U"])
    S2, P2, U2 = set(after["S"]), set(after["P"]), set(after["U"])
    D_obs = S0 - (S2 | P2)
    alpha = oracles.cone_alpha_vec(W)
    # ellipsoids: per-facet allowance alpha_n*eps.  rectangles: the objective-space shift the algorithm
    # itself passes (its `cone_alpha_eps`); whether that shift MEANS alpha*eps per facet is decided
    # end-to-end by C01 and by C10, not here (C03 is about when the test is applied).
    slackP = alpha * eps if (kind == "ell" or rect_shift is None) else np.asarray(rect_shift, float)
    A0 = S0 | U0
    ids = sorted(A0 | P0)
    tau = tau_of(regions, ids)
    out = {"discard": {}, "pareto": {}, "useful": {}, "D_obs": D_obs}
    for i in S0:
        e = exists3(dominated3(W, regions[i], regions[j], 0.0, tau) for j in A0 if j != i)
        out["discard"][i] = (e, i in D_obs)
    S1 = S0 - D_obs
    A1 = S1 | U0
    newP = P2 - P0
    for i in S1:
        c = exists3(covered3(W, regions[i], regions[j], slackP, tau) for j in A1 if j != i)
        out["pareto"][i] = (-c, i in newP)  # enters P <=> nobody can cover
    for p in P2:
        u = exists3(covered3(W, regions[s], regions[p], slackP, tau) for s in S2)
        out["useful"][p] = (u, p in U2)
    return out


def vogp_reference(W, eps, regions, before, after, slack_vec, pess_impl, is2x2):
    S0, P0 = set(before["S"]), set(before["P"])
    S2, P2 = set(after["S"]), set(after["P"])
    D_obs = S0 - (S2 | P2)
    W0 = S0 | P0
    tau = tau_of(regions, sorted(W0))
    out = {"pess": {}, "discard": {}, "pareto": {}, "D_obs": D_obs}
    for i in W0:
        dominated_by_someone = exists3(pess3(W, regions[j], regions[i], tau) for j in W0 if j != i)
        out["pess"][i] = (-dominated_by_someone, i in pess_impl)  # in pess <=> nobody pess-dominates
    for i in S0:
        if i in pess_impl:
            # a member of the pessimistic set is never a candidate for elimination in the
            # implementation; the property text ("exactly when ... certificate") can also be read as
            # asking for its removal when ANOTHER pessimistic member certifies it, so that case is
            # left undecided (either outcome accepted); without such a certificate it must stay
            e = exists3(dominated3(W, regions[i], regions[j], slack_vec, tau) for j in pess_impl if j != i)
            e = -1 if e == -1 else 0
        else:
            e = exists3(dominated3(W, regions[i], regions[j], slack_vec, tau) for j in pess_impl)
        out["discard"][i] = (e, i in D_obs)
    S1 = S0 - D_obs
    newP = P2 - P0
    for i in S1:
        c = exists3(covered3(W, regions[i], regions[j], slack_vec, tau) for j in (S1 | P0) if j != i)
        out["pareto"][i] = (-c, i in newP)
    return out


def auer_reference(eps, regions, before, after):
    S0, P0 = set(before["S"]), set(before["P"])
    S2, P2 = set(after["S"]), set(after["P"])
    D_obs = S0 - (S2 | P2)
    c = {i: (regions[i][1] + regions[i][2]) / 2.0 for i in S0}
    hw = {i: (regions[i][2] - regions[i][1]) / 2.0 for i in S0}
    tau = oracles.tau_for(*[c[i] for i in S0], *[hw[i] for i in S0], [eps]) if S0 else 1e-6

    def small_m(i, j):
        return max(0.0, float(np.min(c[j] - c[i])))

    def big_m(i, j):
        return max(0.0, float(np.max(c[i] + eps - c[j])))

    out = {"discard": {}, "pareto": {}, "D_obs": D_obs}
    for i in S0:
        e = exists3(all3(oracles.tri(small_m(i, j) - b, tau) for b in (hw[i] + hw[j])) for j in S0 if j != i)
        out["discard"][i] = (e, i in D_obs)
    S1 = S0 - D_obs
    # P1: i such that for no j:  M(i,j) < beta_i + beta_j in every objective
    p1 = {}
    for i in S1:
        blocked = exists3(all3(oracles.tri(b - big_m(i, j), tau) for b in (hw[i] + hw[j])) for j in S1 if j != i)
        p1[i] = -blocked
    out["p1"] = p1
    newP = P2 - P0
    undecided_p1 = any(v == 0 for v in p1.values())
    P1 = {i for i, v in p1.items() if v == 1}
    for i in S1:
        if p1[i] == -1:
            out["pareto"][i] = (-1, i in newP)
        elif p1[i] == 0 or undecided_p1:
            out["pareto"][i] = (0, i in newP)
        else:
            held = exists3(all3(oracles.tri(b - big_m(j, i), tau) for b in (hw[i] + hw[j])) for j in S1 if j not in P1)
            out["pareto"][i] = (-held, i in newP)
    return out
