"""Harness-owned seams (DESIGN 2.1): dataset injection, stub posterior model, recording problem.

No source hooks: everything is substituted from outside through plain attributes.
"""
import numpy as np

_DS_COUNT = [0]


def inject_dataset(in_data, out_data, name=None, out_dtype=float):
    """Register a Dataset subclass in vopy.datasets.dataset's globals (that is where
    get_dataset_instance resolves names) holding exactly the given arrays (no scalers)."""
    import vopy.datasets.dataset as dsmod

    in_data = np.array(in_data, dtype=float)
    out_data = np.array(out_data, dtype=out_dtype)
    if name is None:
        _DS_COUNT[0] += 1
        name = f"VerifDS_{_DS_COUNT[0]}"

    def __init__(self):
        self.in_data = in_data.copy()
        self.out_data = out_data.copy()
        self.in_dim = in_data.shape[1]
        self.out_dim = out_data.shape[1]

    cls = type(name, (dsmod.Dataset,), {
        "__init__": __init__,
        "_in_dim": in_data.shape[1],
        "_out_dim": out_data.shape[1],
        "_cardinality": in_data.shape[0],
    })
    setattr(dsmod, name, cls)
    return name


def default_inputs(K, d=1):
    """K distinct design inputs in [0,1]^d"""
    if d == 1:
        return np.linspace(0.0, 1.0, K).reshape(-1, 1) if K > 1 else np.array([[0.5]])
    g = np.linspace(0.0, 1.0, int(np.ceil(K ** (1.0 / d))) + 1)
    pts = np.array(np.meshgrid(*([g] * d))).reshape(d, -1).T
    return pts[:K]


class no_fit:
    """Context manager: skip GP hyper-parameter fitting while building a template whose model is
    replaced by the stub afterwards (the fit would be discarded anyway)."""

    def __enter__(self):
        import vopy.models.gpytorch as g

        self.g = g
        self.old = g.fit_gpytorch_mll
        g.fit_gpytorch_mll = lambda mll, *a, **k: mll
        return self

    def __exit__(self, *a):
        self.g.fit_gpytorch_mll = self.old


class StubModel:
    """Posterior seam.  predict(X) returns, for the designs whose rows are in X, the (mean,
    covariance) the environment chose.  Shape contract: (N, m), (N, m, m) for every N >= 1."""

    def __init__(self, points, m, honour_track_variances=False):
        self.points = np.array(points, dtype=float)
        self.m = m
        self.output_dim = m
        self.input_dim = self.points.shape[1]
        K = len(self.points)
        self.mean = np.zeros((K, m))
        self.cov = np.tile(np.eye(m), (K, 1, 1))
        self.added = []
        self.updates = 0
        self.predict_calls = 0
        self.honour_track_variances = honour_track_variances
        self.track_variances = True
        self.track_means = True
        self.lengthscale = 0.5
        self.variance = 1.0
        self.kernel_matrix = None

    # -- lookup
    def index_of(self, X):
        X = np.asarray(X, dtype=float)
        if X.ndim == 1:
            X = X.reshape(1, -1)
        d = self.points.shape[1]
        if X.shape[1] < d:
            P = self.points[:, : X.shape[1]]
        else:
            P = self.points
            X = X[:, :d]
        idx = []
        for x in X:
            dist = np.max(np.abs(P - x), axis=1)
            k = int(np.argmin(dist))
            if dist[k] > 1e-9:
                raise AssertionError(f"StubModel asked about an unknown point {x}")
            idx.append(k)
        return np.array(idx, dtype=int)

    def set_points(self, points):
        """for growing design spaces (VOGP_AD): extend the tables, new rows default"""
        points = np.array(points, dtype=float)
        K0 = len(self.points)
        if len(points) > K0:
            extra = len(points) - K0
            self.mean = np.vstack([self.mean, np.zeros((extra, self.m))])
            self.cov = np.concatenate([self.cov, np.tile(np.eye(self.m), (extra, 1, 1))])
        self.points = points

    # -- Model interface
    def predict(self, X):
        self.predict_calls += 1
        idx = self.index_of(X)
        means = self.mean[idx].copy()
        if self.honour_track_variances and not self.track_variances:
            covs = np.tile(np.eye(self.m), (len(idx), 1, 1))
        else:
            covs = self.cov[idx].copy()
        return means, covs

    def add_sample(self, *args):
        # index sets (PaVeBa / Auer) are kept in their iteration order, which is what the real model zips over
        self.added.append(tuple(np.array(a, dtype=float).copy() if not isinstance(a, (set, frozenset)) else list(a) for a in args))

    def update(self):
        self.updates += 1

    def train(self):
        pass

    def clear_data(self):
        self.added = []

    # -- GPModel extras
    def get_lengthscale_and_var(self):
        return np.full((self.m, self.input_dim), self.lengthscale), np.full(self.m, self.variance)

    def get_kernel_type(self):
        return "RBF"

    def evaluate_kernel(self, X=None):
        if self.kernel_matrix is not None:
            return self.kernel_matrix
        return np.eye(self.m)

    def sample_from_single_posterior(self, X, dim_index, sample_count=1):
        idx = self.index_of(X)
        base = self.mean[idx, dim_index]
        sd = np.sqrt(self.cov[idx, dim_index, dim_index])
        k = np.arange(sample_count).reshape(-1, 1)
        return base[None, :] + sd[None, :] * np.cos(1.0 + k + np.arange(len(idx))[None, :])


class RecordingProblem:
    """Observation seam: forwards to the real problem (or a scripted table) and logs every call."""

    def __init__(self, inner, script=None):
        self.inner = inner
        self.calls = []
        self.script = script  # callable(x, *args) -> values, or None
        for attr in ("in_dim", "out_dim", "noise_var", "dataset", "depth_max", "bounds", "noise_cholesky", "problem"):
            if hasattr(inner, attr):
                setattr(self, attr, getattr(inner, attr))

    def evaluate(self, x, *args, **kwargs):
        before = np.array(x, dtype=float).copy()
        if self.script is not None:
            out = self.script(x, *args, **kwargs)
        else:
            out = self.inner.evaluate(x, *args, **kwargs)
        after = np.array(x, dtype=float)
        self.calls.append({"x": before, "x_after_equal": bool(np.array_equal(before, after)), "args": args, "kwargs": kwargs,
                           "out": np.array(out, dtype=float).copy()})
        return out
