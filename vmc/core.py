"""Common machinery: environment pinning, worker pool, violations / known findings, evidence.

Nothing here knows about a particular property.  A check module provides

    PROPERTY   = "Cxx"
    LEVEL      = "model_checking" | "exploration"
    def units(ctx)            -> list of picklable work-unit descriptors (deterministic)
    def run_unit(unit)        -> UnitResult-like dict (see ``new_result``)
    def replay_case(case)     -> list of violation dicts for exactly that case (may be empty)
    def finish(ctx, merged)   -> optional hook: vacuity guards / extra evidence fields

``run_check.py`` drives them.
"""
import hashlib
import json
import os
import sys
import time

VERIF = os.path.dirname(os.path.dirname(os.path.abspath(__file__)))
REPO = os.environ.get("VERIF_REPO", "/repo")


def pin_env():
    """Must run before numpy / torch are imported."""
    for k in ("OMP_NUM_THREADS", "MKL_NUM_THREADS", "OPENBLAS_NUM_THREADS", "NUMEXPR_NUM_THREADS"):
        os.environ[k] = "1"
    os.environ.setdefault("PYTHONHASHSEED", "0")
    os.environ.setdefault("MPLBACKEND", "Agg")
    if REPO not in sys.path[:1]:
        sys.path.insert(0, REPO)
    if VERIF not in sys.path:
        sys.path.insert(1, VERIF)
    import warnings

    warnings.filterwarnings("ignore")


def import_vopy():
    """Import the working tree's vopy (never a stale copy) and pin torch threads."""
    pin_env()
    import logging

    logging.disable(logging.CRITICAL)
    import torch

    torch.set_num_threads(1)
    import vopy  # noqa

    got = os.path.realpath(os.path.dirname(os.path.dirname(vopy.__file__)))
    if got != os.path.realpath(REPO):
        raise RuntimeError(f"vopy imported from {got}, expected {REPO}")
    return vopy


# --------------------------------------------------------------------------------------------
# context


class Ctx:
    def __init__(self, prop, tier, seed):
        self.prop = prop
        self.tier = tier
        self.seed = seed
        self.thorough = tier == "thorough"
        self.nproc = int(os.environ.get("VERIF_NPROC", str(min(16, os.cpu_count() or 1))))
        self.t0 = time.time()


# --------------------------------------------------------------------------------------------
# results


def new_result():
    return {
        "evaluations": 0,  # real-code executions / cases
        "nontrivial": 0,  # distinct non-trivial cases by the check's rule
        "states": 0,
        "transitions": 0,
        "boundary_skipped": 0,
        "violations": [],  # list of violation dicts
        "samples": [],  # a few cases written out
        "counters": {},  # free-form named counters (summed on merge)
        "outcomes": [],  # distinct outcome fingerprints (set-union on merge)
        "caps_hit": [],  # descriptions of any cap that cut an enumeration
    }


def bump(res, name, by=1):
    res["counters"][name] = res["counters"].get(name, 0) + by


def violation(prop, key, case, expected, observed, msg):
    """key: small dict identifying the *kind* of failure (matched against known findings);
    case: everything needed to re-execute exactly this case."""
    return {
        "property": prop,
        "key": key,
        "case": case,
        "expected": expected,
        "observed": observed,
        "msg": msg,
    }


def merge(results):
    out = new_result()
    outcomes = set()
    for r in results:
        for k in ("evaluations", "nontrivial", "states", "transitions", "boundary_skipped"):
            out[k] += r.get(k, 0)
        out["violations"].extend(r.get("violations", []))
        if len(out["samples"]) < 12:
            out["samples"].extend(r.get("samples", [])[:2])
        for k, v in r.get("counters", {}).items():
            out["counters"][k] = out["counters"].get(k, 0) + v
        for o in r.get("outcomes", []):
            outcomes.add(o if isinstance(o, str) else json.dumps(o, sort_keys=True, default=str))
        out["caps_hit"].extend(r.get("caps_hit", []))
    out["outcomes"] = sorted(outcomes)
    out["caps_hit"] = sorted(set(out["caps_hit"]))
    return out


# --------------------------------------------------------------------------------------------
# pool


def _worker_init(repo):
    os.environ["VERIF_REPO"] = repo
    pin_env()


def _call(args):
    modname, unit = args
    import importlib
    import traceback

    try:
        mod = importlib.import_module(modname)
        return mod.run_unit(unit)
    except Exception as e:
        # An exception that escaped while LIBRARY code was on the stack means the implementation
        # raised on an input of the explored space: that is a property failure (no answer was given),
        # reported with the unit as replay.  Anything else is a harness crash: loud, exit 2.
        import pickle

        tb = traceback.extract_tb(e.__traceback__)
        lib = os.path.realpath(REPO) + os.sep
        if any(os.path.realpath(fr.filename).startswith(lib) for fr in tb):
            res = new_result()
            where = [f"{os.path.relpath(fr.filename, REPO)}:{fr.lineno}" for fr in tb if os.path.realpath(fr.filename).startswith(lib)][-1]
            res["violations"].append(violation(
                getattr(mod, "PROPERTY", "?"), {"kind": "implementation-raised", "exc": type(e).__name__},
                {"mode": "unit-crash", "module": modname, "unit_pickle": pickle.dumps(unit).hex()}, "an answer", repr(e)[:200],
                f"the implementation raised {e!r} at {where} while exploring unit {repr(unit)[:200]}"))
            res["evaluations"] = 1
            return res
        return {"harness_error": traceback.format_exc(), "unit": repr(unit)[:500]}


def run_units(modname, units, nproc):
    """Deterministic distribution of work units over a spawn pool (no fork: torch/BLAS state)."""
    if not units:
        return []
    if nproc <= 1 or len(units) == 1:
        return [_call((modname, u)) for u in units]
    import multiprocessing as mp

    ctx = mp.get_context("spawn")
    n = min(nproc, len(units))
    with ctx.Pool(n, initializer=_worker_init, initargs=(REPO,)) as pool:
        return pool.map(_call, [(modname, u) for u in units], chunksize=1)


# --------------------------------------------------------------------------------------------
# known findings


def load_known():
    p = os.path.join(VERIF, "known_findings.json")
    if not os.path.exists(p):
        return []
    with open(p) as f:
        return json.load(f)["findings"]


def match_known(v, known):
    for k in known:
        if k.get("status") != "known":
            continue  # "fixed" entries suppress nothing
        if k["property"] != v["property"]:
            continue
        if all(v["key"].get(a) == b for a, b in k["key"].items()):
            return k
    return None


# --------------------------------------------------------------------------------------------
# json helpers


def jsonable(x):
    import numpy as np
    from fractions import Fraction

    if isinstance(x, dict):
        return {str(k): jsonable(v) for k, v in x.items()}
    if isinstance(x, (list, tuple)):
        return [jsonable(v) for v in x]
    if isinstance(x, (set, frozenset)):
        return sorted(jsonable(v) for v in x)
    if isinstance(x, np.ndarray):
        return jsonable(x.tolist())
    if isinstance(x, (np.integer,)):
        return int(x)
    if isinstance(x, (np.floating,)):
        return float(x)
    if isinstance(x, (np.bool_,)):
        return bool(x)
    if isinstance(x, Fraction):
        return float(x)
    if isinstance(x, float) and (x != x or x in (float("inf"), float("-inf"))):
        return repr(x)
    if isinstance(x, (str, int, float, bool)) or x is None:
        return x
    return repr(x)


def write_replay(v):
    d = os.path.join(VERIF, "replays", v["property"])
    os.makedirs(d, exist_ok=True)
    body = json.dumps(jsonable(v), sort_keys=True, indent=1)
    h = hashlib.sha1(body.encode()).hexdigest()[:12]
    p = os.path.join(d, h + ".json")
    with open(p, "w") as f:
        f.write(body)
    return p


def write_evidence(ctx, level, merged, rule, n_viol, assumptions, extra=None):
    cov = {
        "evaluations": int(merged["evaluations"]),
        "distinct_nontrivial": int(merged["nontrivial"]),
        "rule": rule,
        "samples": jsonable(merged["samples"][:8]) or ["<none>"],
        "exhaustive": not merged["caps_hit"],
        "caps_hit": merged["caps_hit"],
        "boundary_skipped": int(merged["boundary_skipped"]),
        "distinct_outcomes": len(merged["outcomes"]),
        "counters": jsonable(merged["counters"]),
    }
    if level == "model_checking":
        cov["states"] = int(merged["states"])
        cov["transitions"] = int(merged["transitions"])
        cov["traces_validated_against_impl"] = int(merged["transitions"])
    if extra:
        cov.update(jsonable(extra))
    ev = {
        "property_id": ctx.prop,
        "tier": ctx.tier,
        "seed": int(ctx.seed),
        "level": level,
        "coverage": cov,
        "assumptions": assumptions,
        "wall_s": round(time.time() - ctx.t0, 2),
        "violations": int(n_viol),
    }
    try:
        import jsonschema

        with open("/root/.vp/EVIDENCE.schema.json") as f:
            jsonschema.validate(ev, json.load(f))
    except FileNotFoundError:
        pass
    os.makedirs(os.path.join(VERIF, "evidence"), exist_ok=True)
    p = os.path.join(VERIF, "evidence", ctx.prop + ".json")
    with open(p, "w") as f:
        json.dump(ev, f, indent=1, sort_keys=True)
    return p
