#!/bin/bash
# usage: seed_eval.sh <seed-name> <src-dir> <prop> <checks,comma> [test files...]
# Confirms an independently produced change: patch applies to a scratch copy of /repo, the demo
# passes on /repo and fails on the copy, the listed repository tests pass on the copy; then runs the
# checks against the copy (VERIF_REPO) and records everything in /verif/seeded/<seed-name>/.
export OMP_NUM_THREADS=1 MKL_NUM_THREADS=1 OPENBLAS_NUM_THREADS=1
name=$1; src=$2; prop=$3; checks=$4; shift 4; tests="$@"
out=/verif/seeded/$name; mkdir -p $out
cp $src/patch.diff $src/demo.py $out/ 2>/dev/null; cp $src/notes.md $out/agent_notes.md 2>/dev/null
d=/var/tmp/vopy_seed_$name; rm -rf $d; rsync -a --exclude .git --exclude .benchmarks --exclude docs /repo/ $d/
if ! (cd $d && patch -p1 -s < $out/patch.diff); then echo "PATCH FAILED"; rm -rf $d; exit 3; fi
demo_orig=$(cd /repo && timeout 900 /venv/bin/python $out/demo.py /repo 2>&1 | tail -3; echo "rc=${PIPESTATUS[0]}")
demo_mut=$(cd $d && timeout 900 /venv/bin/python $out/demo.py $d 2>&1 | tail -3; echo "rc=${PIPESTATUS[0]}")
echo "demo on /repo:  $demo_orig" | tail -2
echo "demo on change: $demo_mut" | tail -2
tres=""
if [ -n "$tests" ]; then
  tres=$(cd $d && timeout 3000 /venv/bin/python -m pytest -q -p no:cacheprovider --timeout=900 $tests 2>&1 | tail -1)
  echo "repo tests on change: $tres"
fi
results=""
for c in ${checks//,/ }; do
  ev=/verif/evidence/$c.json; cp $ev /tmp/ev_backup_$c.json 2>/dev/null
  o=$(VERIF_REPO=$d /venv/bin/python /verif/run_check.py $c --tier quick 2>&1); rc=$?
  cp /tmp/ev_backup_$c.json $ev 2>/dev/null
  echo "== seed=$name check=$c rc=$rc"; echo "$o" | grep -A1 "^VIOLATION" | head -4
  results="$results $c:rc=$rc"
  first=$(echo "$o" | grep -A1 "^VIOLATION" | sed -n 2p | cut -c1-400)
  echo "$c rc=$rc :: $first" >> $out/check_output.txt
done
/venv/bin/python - "$name" "$prop" "$checks" "$results" "$tests" "$tres" "$demo_orig" "$demo_mut" <<'PY'
import json,sys
name,prop,checks,results,tests,tres,do,dm=sys.argv[1:9]
meta={"seed":name,"breaks_property":prop,"checks_run":checks.split(","),"check_results":results.split(),
      "repo_tests_run_on_change":tests,"repo_tests_result":tres,"demo_on_unchanged_repo":do[-200:],"demo_on_change":dm[-200:],
      "needs_to_manifest":"see agent_notes.md"}
json.dump(meta,open(f"/verif/seeded/{name}/meta.json","w"),indent=1)
PY
rm -rf $d
