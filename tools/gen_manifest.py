"""Regenerate MANIFEST.json from the table below (keeps it valid at all times)."""
import json, os, subprocess
HERE = os.path.dirname(os.path.dirname(os.path.abspath(__file__)))
from manifest_table import CHECKS, NOT_APPLICABLE, ENGINES, HOOK_COMMITS  # noqa

checks = []
for c in CHECKS:
    pid = c["id"]
    checks.append({
        "property_id": pid,
        "quick_cmd": f"/venv/bin/python /verif/run_check.py {pid} --tier quick",
        "thorough_cmd": f"/venv/bin/python /verif/run_check.py {pid} --tier thorough",
        "evidence_file": f"/verif/evidence/{pid}.json",
        "replay_cmd_template": f"/venv/bin/python /verif/run_check.py {pid} --replay {{path}}",
        "engine": c["engine"],
        "level_claimed": {"category": c["level"], "text": c["text"], "design_ref": c["design_ref"]},
        "level_note": c["note"],
        "technique": c["technique"],
    })
m = {
    "version": 1,
    "setup_cmd": "/venv/bin/python -c \"import sys; sys.path.insert(0,'/verif'); import vmc.core, jsonschema, numpy\"",
    "hooks": {
        "guard": "VOPY_VERIF",
        "enable": "no source hooks are needed: the harness substitutes algorithm.model / algorithm.problem / dataset classes from outside (DESIGN 2.1); checks import /repo's working tree directly",
        "baseline_off_cmd": "cd /repo && /venv/bin/python -m pytest -ra -q -p no:cacheprovider --timeout=900 --continue-on-collection-errors",
        "source_commits": HOOK_COMMITS,
        "add_only": True,
    },
    "engines": ENGINES,
    "checks": checks,
    "not_applicable": NOT_APPLICABLE,
    "notes": "All checks are bounded-exhaustive enumerations executed on the real VOPy code (explicit-state search over run_one_step, operation sequences, input lattices, configuration grids) against independent reference oracles; see DESIGN.md.",
}
json.dump(m, open(os.path.join(HERE, "MANIFEST.json"), "w"), indent=1)
import jsonschema
jsonschema.validate(m, json.load(open("/root/.vp/MANIFEST.schema.json")))
print("MANIFEST.json ok:", len(checks), "checks,", len(NOT_APPLICABLE), "not_applicable")
