ALL = ["C%02d" % i for i in range(1, 21)]
HOOK_COMMITS = []
ENGINES = [
    {"name": "lattice", "path": "vmc/lattice.py", "serves_properties": ["C09", "C10", "C11", "C12", "C13", "C17", "C19", "C20"],
     "kind_free_text": "bounded-exhaustive input enumeration on dyadic lattices x finite cone family, exact / certified oracles"},
    {"name": "stepmc", "path": "vmc/stepmc.py", "serves_properties": ["C01", "C02", "C03", "C05", "C06", "C07", "C18"],
     "kind_free_text": "explicit-state BFS over the real run_one_step() with harness-owned posterior/observation seams"},
    {"name": "opseq", "path": "vmc/opseq.py", "serves_properties": ["C14", "C15", "C16", "C18", "C20"],
     "kind_free_text": "all operation sequences up to a depth on the real object vs. a reference model"},
    {"name": "grid", "path": "vmc/grid.py", "serves_properties": ["C04", "C08"],
     "kind_free_text": "configuration grids executed on the real constructors/schedules with closed-form probabilities"},
]
CHECKS = [
    {"id": "C12", "engine": "lattice", "level": "exploration",
     "text": "Every ordered pair and triple of a dyadic lattice (all scales of the ladder in thorough) x the finite cone family is run through the real dominates()/is_inside() and compared with exact rational arithmetic; angle sweeps pin the bundled cones' geometry. Exhaustive within the lattice; says nothing about vectors/cones outside it.",
     "design_ref": "3/C12", "note": "Fraction(float) arithmetic defines the facet inequalities; near-boundary pairs for non-integer W are skipped and counted.",
     "technique": "bounded-exhaustive lattice enumeration vs exact rational oracle"},
    {"id": "C13", "engine": "lattice", "level": "exploration",
     "text": "Every ordered sequence (with repetition) of <=4 (thorough 5) points of a 3x3 lattice and <=3 (4) of a 2x2x2 lattice x the cone family, plus an exhaustive pattern grammar of chains/duplicates up to 12 points, is run through the real get_pareto_set / get_pareto_set_naive and compared with a brute-force exact dominance matrix. Exhaustive within those bounds.",
     "design_ref": "3/C13", "note": "'hundreds of random points' is replaced by the exhaustive small-lattice space; larger unstructured inputs are not covered.",
     "technique": "bounded-exhaustive sequence enumeration vs brute-force exact dominance matrix"},
    {"id": "C09", "engine": "lattice", "level": "exploration",
     "text": "All ordered pairs of lattice rectangles (shape alphabet x every lattice rectangle; thorough: all x all) and alphabet ellipsoids, at every scale of the ladder (1e-4..1e2), with anisotropic stretches, x cone family (2x2, K>m, integer, 3-D) x scalar/vector slacks go through the real is_dominated and an independent closed-form support-function oracle; integer-W/dyadic cases are decided exactly on the boundary.",
     "design_ref": "3/C09", "note": "cases within tau=1e-6*max(1,|data|) of the boundary are not compared unless exactly representable.",
     "technique": "bounded-exhaustive lattice enumeration vs closed-form support-function oracle"},
    {"id": "C10", "engine": "lattice", "level": "exploration",
     "text": "Same pair space as C09 through the real is_covered (cvxpy LP / SOCP); oracle = exhaustive vertex enumeration of the LP for rectangles and certificate-checked minimax bounds (explicit witness point or separating functional) for ellipsoids.",
     "design_ref": "3/C10", "note": "cases whose certified value lies within tau of 0 are not compared (counted).",
     "technique": "bounded-exhaustive lattice enumeration vs certificate-checked oracle"},
    {"id": "C11", "engine": "lattice", "level": "exploration",
     "text": "All ordered pairs of lattice rectangles including degenerate edges x sub-step shifts x stretches x scales x cone family through the real check_dominates; per-vertex exact LP oracle; soundness for every cone, completeness for 2x2 cones.",
     "design_ref": "3/C11", "note": "margin tau as in C09; the derived clause on the pessimistic set is checked inside the C02 executions.",
     "technique": "bounded-exhaustive lattice enumeration vs per-vertex LP vertex-enumeration oracle"},
    {"id": "C17", "engine": "lattice", "level": "exploration",
     "text": "Finite cone family (theta sweep over (0,180), ice-cream K x half-angle grid, named 3-D cones, orthants, all bounded-entry integer-row cones in 2-4 D) through the real OrderingCone.alpha, VOGP/VOGP_AD.compute_u_star and ConeTheta2D.beta; oracle = exhaustive active-set (KKT) enumeration with matching primal and dual certificates.",
     "design_ref": "3/C17", "note": "tolerances alpha 1e-6, u* 1e-5; cones outside the family are not covered.",
     "technique": "exhaustive cone-family enumeration vs KKT active-set enumeration with primal/dual certificates"},
]
claimed = {c["id"] for c in CHECKS}
NOT_APPLICABLE = [{"property_id": p, "reason": "check not built yet (work in progress; planned in DESIGN.md section 3)"} for p in ALL if p not in claimed]
