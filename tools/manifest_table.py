ALL = ["C%02d" % i for i in range(1, 21)]
HOOK_COMMITS = []
ENGINES = [
    {"name": "lattice", "path": "vmc/lattice.py", "serves_properties": ["C09", "C10", "C11", "C12", "C13", "C17", "C19", "C20"],
     "kind_free_text": "bounded-exhaustive input enumeration on dyadic lattices x finite cone family, exact / certified oracles"},
    {"name": "stepmc", "path": "vmc/stepmc.py", "serves_properties": ["C01", "C02", "C03", "C05", "C06", "C07", "C18"],
     "kind_free_text": "explicit-state BFS over the real run_one_step() with harness-owned posterior/observation seams"},
    {"name": "opseq", "path": "vmc/opseq.py", "serves_properties": ["C14", "C15", "C16", "C18", "C20"],
     "kind_free_text": "all operation sequences up to a depth on the real object vs. a reference model"},
    {"name": "grid", "path": "vmc/grid.py", "serves_properties": ["C04", "C08"],
     "kind_free_text": "configuration grids executed on the real constructors/schedules with closed-form probabilities"},
]
CHECKS = [
    {"id": "C12", "engine": "lattice", "level": "exploration",
     "text": "Every ordered pair and triple of a dyadic lattice (all scales of the ladder in thorough) x the finite cone family is run through the real dominates()/is_inside() and compared with exact rational arithmetic; angle sweeps pin the bundled cones' geometry. Exhaustive within the lattice; says nothing about vectors/cones outside it.",
     "design_ref": "3/C12", "note": "Fraction(float) arithmetic defines the facet inequalities; near-boundary pairs for non-integer W are skipped and counted.",
     "technique": "bounded-exhaustive lattice enumeration vs exact rational oracle"},
]
claimed = {c["id"] for c in CHECKS}
NOT_APPLICABLE = [{"property_id": p, "reason": "check not built yet (work in progress; planned in DESIGN.md section 3)"} for p in ALL if p not in claimed]
