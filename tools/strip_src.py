"""Print python sources without docstrings/blank lines, with original line numbers (reading aid)."""
import sys,ast
for f in sys.argv[1:]:
    src=open(f).read()
    tree=ast.parse(src)
    lines=src.split('\n')
    rm=set()
    for node in ast.walk(tree):
        if isinstance(node,(ast.FunctionDef,ast.ClassDef,ast.Module)):
            b=node.body
            if b and isinstance(b[0],ast.Expr) and isinstance(getattr(b[0],'value',None),ast.Constant) and isinstance(b[0].value.value,str):
                for i in range(b[0].lineno-1,b[0].end_lineno): rm.add(i)
    print('#### ',f)
    for i,l in enumerate(lines):
        if i in rm or not l.strip(): continue
        print(f"{i+1}\t{l}")
