#!/venv/bin/python
"""Mutation runner (detection demonstrations, DESIGN 6).

  mut.py <name> <check-ids,comma> <file-relative-to-repo> <old> <new> [--tier quick] [--tests test/path ...]
  mut.py <name> <check-ids> --patch file.diff

Copies /repo to /var/tmp/vopy_mut_<name>, applies the edit (old must occur exactly once), stores the
diff in /verif/mutants/<name>.patch, runs the checks with VERIF_REPO=<copy>, optionally runs the
repository's own tests on the copy, appends a line to /verif/mutants/RESULTS.md and removes the copy.
Evidence files are rewritten by these runs: re-run the checks on /repo before committing evidence.
"""
import argparse
import os
import shutil
import subprocess
import sys

ap = argparse.ArgumentParser()
ap.add_argument("name")
ap.add_argument("checks")
ap.add_argument("file", nargs="?")
ap.add_argument("old", nargs="?")
ap.add_argument("new", nargs="?")
ap.add_argument("--patch")
ap.add_argument("--tier", default="quick")
ap.add_argument("--tests", nargs="*", default=[])
ap.add_argument("--count", type=int, default=1)
ap.add_argument("--keep-evidence", action="store_true")
a = ap.parse_args()

d = f"/var/tmp/vopy_mut_{a.name}"
shutil.rmtree(d, ignore_errors=True)
subprocess.check_call(["rsync", "-a", "--exclude", ".git", "--exclude", ".benchmarks", "--exclude", "docs", "/repo/", d + "/"])
try:
    if a.patch:
        subprocess.check_call(["patch", "-p1", "-s", "-i", os.path.abspath(a.patch)], cwd=d)
    else:
        p = os.path.join(d, a.file)
        s = open(p).read()
        old = a.old.encode().decode("unicode_escape")
        new = a.new.encode().decode("unicode_escape")
        if s.count(old) != a.count:
            print(f"EDIT FAILED: old occurs {s.count(old)} times (expected {a.count})")
            sys.exit(3)
        open(p, "w").write(s.replace(old, new))
    diff = subprocess.run(["diff", "-ru", "--exclude=__pycache__", "/repo/vopy", d + "/vopy"], capture_output=True, text=True).stdout
    diff = diff.replace(d + "/", "b/").replace("/repo/", "a/")
    os.makedirs("/verif/mutants", exist_ok=True)
    open(f"/verif/mutants/{a.name}.patch", "w").write(diff)
    # syntax check
    subprocess.check_call(["/venv/bin/python", "-c", "import sys; sys.path.insert(0, sys.argv[1]); import vopy", d],
                          stdout=subprocess.DEVNULL, stderr=subprocess.DEVNULL)
    results = []
    # back up evidence so mutant runs do not leave mutant evidence behind
    ev_backup = {}
    for c in a.checks.split(","):
        evp = f"/verif/evidence/{c}.json"
        if os.path.exists(evp):
            ev_backup[evp] = open(evp).read()
        env = dict(os.environ, VERIF_REPO=d)
        r = subprocess.run(["/venv/bin/python", "/verif/run_check.py", c, "--tier", a.tier], env=env, capture_output=True, text=True)
        lines = [l for l in r.stdout.splitlines() if l.startswith(("VIOLATION", "KNOWN", "[C")) or l.startswith("  ")]
        print(f"== mutant={a.name} check={c} rc={r.returncode}")
        for l in lines[:5]:
            print("   ", l[:300])
        if r.returncode == 2:
            print(r.stderr[-1500:])
        results.append(f"{c}:rc={r.returncode}")
    for evp, body in ev_backup.items():
        open(evp, "w").write(body)
    tests = ""
    if a.tests:
        r = subprocess.run(["/venv/bin/python", "-m", "pytest", "-q", "-x", "-p", "no:cacheprovider", "--timeout=900"] + a.tests,
                           cwd=d, capture_output=True, text=True, env=dict(os.environ, OMP_NUM_THREADS="1", MKL_NUM_THREADS="1", OPENBLAS_NUM_THREADS="1"))
        tail = r.stdout.strip().splitlines()[-1] if r.stdout.strip() else ""
        print("== repo tests:", tail)
        tests = f" tests[{' '.join(a.tests)}]: {tail}"
    with open("/verif/mutants/RESULTS.md", "a") as f:
        f.write(f"- `{a.name}` ({a.file or a.patch}) tier={a.tier}: {' '.join(results)}{tests}\n")
finally:
    shutil.rmtree(d, ignore_errors=True)
