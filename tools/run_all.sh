#!/bin/bash
# usage: run_all.sh [tier] [seed] [ids...]   -- runs checks sequentially, prints rc and wall time
tier=${1:-quick}; seed=${2:-0}; shift 2 2>/dev/null
ids=${@:-C01 C02 C03 C04 C05 C06 C07 C08 C09 C10 C11 C12 C13 C14 C15 C16 C17 C18 C19 C20}
for c in $ids; do
  t0=$(date +%s)
  out=$(VERIF_SEED=$seed /venv/bin/python /verif/run_check.py $c --tier $tier 2>&1); rc=$?
  t1=$(date +%s)
  echo "$c rc=$rc $((t1-t0))s $(echo "$out" | grep -c '^VIOLATION') viol $(echo "$out" | grep -c '^KNOWN') known"
  [ $rc -ne 0 ] && echo "$out" | tail -5
done
