#!/venv/bin/python
"""CLI: run_check.py <Cxx> [--tier quick|thorough] [--replay path] [--nproc N]

exit 0: property held on everything explored (KNOWN-FINDING lines may be printed)
exit 1: a violation not listed in known_findings.json  (VIOLATION property=<id> replay=<path>)
exit 2: harness error (crash in the machinery, nondeterministic replay) -- never reported as a
        property violation
"""
import argparse
import importlib
import json
import os
import sys

HERE = os.path.dirname(os.path.abspath(__file__))
sys.path.insert(0, HERE)

if os.environ.get("PYTHONHASHSEED") != "0":
    os.environ["PYTHONHASHSEED"] = "0"
    os.execv(sys.executable, [sys.executable] + sys.argv)

from vmc import core  # noqa: E402

core.pin_env()


def main():
    ap = argparse.ArgumentParser()
    ap.add_argument("prop")
    ap.add_argument("--tier", default=os.environ.get("VERIF_TIER", "quick"))
    ap.add_argument("--replay", default=None)
    ap.add_argument("--nproc", type=int, default=None)
    a = ap.parse_args()
    prop = a.prop.upper()
    tier = a.tier if a.tier in ("quick", "thorough") else "quick"
    try:
        seed = int(os.environ.get("VERIF_SEED", "0"))
    except ValueError:
        seed = 0
    if a.nproc:
        os.environ["VERIF_NPROC"] = str(a.nproc)
    modname = "checks." + prop.lower()
    mod = importlib.import_module(modname)
    ctx = core.Ctx(prop, tier, seed)

    def do_replay(case):
        if case.get("mode") == "unit-crash":
            import pickle

            r = core._call((case["module"], pickle.loads(bytes.fromhex(case["unit_pickle"]))))
            return [x for x in r.get("violations", []) if x["key"].get("kind") == "implementation-raised"]
        return mod.replay_case(case)

    if a.replay:
        with open(a.replay) as f:
            v = json.load(f)
        out = do_replay(v["case"])
        print(json.dumps(core.jsonable({"replayed": a.replay, "violations": out}), indent=1))
        known = core.load_known()
        bad = [x for x in out if core.match_known(x, known) is None]
        for x in out:
            k = core.match_known(x, known)
            if k is not None:
                print(f"KNOWN-FINDING: property={x['property']} {k['what']}")
        if bad:
            print(f"VIOLATION property={prop} replay={a.replay}")
            return 1
        return 0

    units = mod.units(ctx)
    results = core.run_units(modname, units, ctx.nproc)
    errs = [r for r in results if "harness_error" in r]
    if errs:
        for e in errs[:3]:
            print("HARNESS-ERROR in unit", e["unit"], file=sys.stderr)
            print(e["harness_error"], file=sys.stderr)
        return 2
    merged = core.merge(results)
    extra = {}
    if hasattr(mod, "finish"):
        extra = mod.finish(ctx, merged) or {}
    if extra.get("harness_error") and not merged["violations"]:
        # vacuity guards only make sense for complete explorations; units stop early once they have
        # violations to report, which legitimately leaves decision classes thin
        print("HARNESS-ERROR:", extra["harness_error"], file=sys.stderr)
        return 2
    extra.pop("harness_error", None)

    # ---- triage violations: known findings vs. new ones
    known = core.load_known()
    viols = [v for v in merged["violations"] if v["property"] == prop]
    new, seen_known = [], {}
    for v in viols:
        k = core.match_known(v, known)
        if k is None:
            new.append(v)
        else:
            seen_known.setdefault(k["id"], [k, 0])[1] += 1
    for kid, (k, n) in sorted(seen_known.items()):
        print(f"KNOWN-FINDING: property={prop} {k['what']} [{kid}; {n} occurrence(s) this run]")

    # ---- confirm new violations by replaying them (twice) before reporting
    reported = 0
    nondet = 0
    seen_keys = set()
    for v in new:
        kk = json.dumps(core.jsonable(v["key"]), sort_keys=True)
        if kk in seen_keys and reported >= 3:
            continue
        if reported >= 8:
            break
        seen_keys.add(kk)
        r1 = do_replay(v["case"])
        r2 = do_replay(v["case"])
        f1 = json.dumps(core.jsonable([(x["key"], x["observed"]) for x in r1]), sort_keys=True)
        f2 = json.dumps(core.jsonable([(x["key"], x["observed"]) for x in r2]), sort_keys=True)
        if f1 != f2 or not [x for x in r1 if x["property"] == prop]:
            nondet += 1
            print("HARNESS-NONDETERMINISM: replay of a reported case did not reproduce:",
                  json.dumps(core.jsonable(v["key"])), file=sys.stderr)
            continue
        path = core.write_replay(v)
        print(f"VIOLATION property={prop} replay={path}")
        print("  " + v["msg"])
        reported += 1

    ev = core.write_evidence(
        ctx,
        mod.LEVEL,
        merged,
        mod.RULE,
        len(new),
        getattr(mod, "ASSUMPTIONS", []),
        extra=dict(extra, known_finding_occurrences={k: n for k, (_, n) in seen_known.items()}),
    )
    c = merged
    print(
        f"[{prop}] tier={tier} seed={seed} evaluations={c['evaluations']} states={c['states']} "
        f"transitions={c['transitions']} nontrivial={c['nontrivial']} outcomes={len(c['outcomes'])} "
        f"boundary_skipped={c['boundary_skipped']} violations_new={len(new)} "
        f"known={sum(n for _, n in seen_known.values())} caps={c['caps_hit']} evidence={ev}"
    )
    if nondet and not reported:
        return 2
    return 1 if reported else 0


if __name__ == "__main__":
    sys.exit(main())
