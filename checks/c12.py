"""C12 - cone orders are their cones' preorders; bundled cones have the stated geometry.

Bounded-exhaustive: every ordered pair / triple of the dyadic lattice {-2..2}^m * step (+ seed
offset), for every cone of the family; angle sweeps for the bundled cones.  Oracle: exact rational
arithmetic on the float W (Fraction(float) is exact) and elementary trigonometry.
"""
import itertools
from fractions import Fraction

import numpy as np

from vmc import cones, core, lattice

PROPERTY = "C12"
LEVEL = "exploration"
RULE = (
    "all ordered pairs and triples of lattice vectors {-2..2}^m*step (every scale of the ladder, "
    "seed-derived dyadic offset) x cone family; non-trivial = pair whose exact facet values are not "
    "all within 1e-12 of 0 (for integer W every pair counts: boundary decided exactly); plus angle "
    "sweeps of theta / ice-cream / 3-D cones"
)
ASSUMPTIONS = [
    "Fraction(float) arithmetic on the float matrix W is the definition of 'satisfies every facet inequality'",
    "non-integer W: pairs whose exact facet value is within 1e-12*scale of 0 are not compared (float dot-product rounding)",
]


def units(ctx):
    us = []
    fam2 = cones.family_2d(ctx.thorough, ctx.seed)
    fam3 = cones.family_3d(ctx.thorough)
    # integer-dtype cone matrices (the form used in the class docstring): float vectors must not be truncated
    fam2 = fam2 + [("Wint", ((1, 0), (0, 1))), ("Wint", ((1, 1), (-1, 2))), ("Wint", ((2, -1), (-1, 2)))]
    fam3 = fam3 + [("Wint", ((1, 0, 0), (0, 1, 0), (0, 0, 1)))]
    for sc in lattice.scales_for(ctx.thorough, ctx.seed, 2):
        for spec in fam2:
            us.append(("rel", spec, 2, sc, ctx.seed))
            us.append(("rel", spec, 2, sc, ctx.seed, 1))  # same lattice translated by 2^17 steps (exact in float64)
        for spec in fam3:
            us.append(("rel", spec, 3, sc, ctx.seed))
            us.append(("rel", spec, 3, sc, ctx.seed, 1))
    # geometry sweeps
    step = 1
    th = [t + (ctx.seed % 10) / 10.0 for t in range(1, 179, step)]
    for ch in lattice.chunks(th, 6):
        us.append(("theta_geom", tuple(ch)))
    ice = [(h, k) for h in range(10, 85, 5) for k in range(3, 13)]
    for ch in lattice.chunks(ice, 4):
        us.append(("ice_geom", tuple(ch)))
    us.append(("named_geom",))
    return us


def _exact_vals(W, d):
    out = []
    for w in W:
        v = Fraction(0)
        for k in range(len(d)):
            v += Fraction(float(w[k])) * Fraction(float(d[k]))
        out.append(v)
    return out


def _is_int(W):
    return bool(np.all(W == np.round(W)))


def check_relation(spec, m, sc, seed, res, only=None, far=0):
    core.import_vopy()
    order = cones.make_order(spec)
    W = order.ordering_cone.W
    intW = _is_int(W)
    step = sc / 2.0
    off = lattice.offset_for(seed, m, step)
    if far:
        off = off + (2.0 ** 17) * step * np.array([1.0, -1.0, 1.0][:m])
    pts = [p * step + off for p in lattice.grid(m, -2, 2)]
    n = len(pts)
    tiny = 1e-12 * max(1.0, sc)
    # --- pairs
    D = np.zeros((n, n), dtype=bool)
    bnd = np.zeros((n, n), dtype=bool)
    for i, j in itertools.product(range(n), repeat=2):
        a, b = pts[i], pts[j]
        got = bool(np.all(order.dominates(a, b)))
        D[i, j] = got
        vals = _exact_vals(W, a - b)  # a-b is exact for dyadic data
        exact = all(v >= 0 for v in vals)
        near = (not intW) and any(abs(float(v)) <= tiny for v in vals)
        res["evaluations"] += 1
        if near:
            bnd[i, j] = True
            res["boundary_skipped"] += 1
            continue
        res["nontrivial"] += 1
        core.bump(res, "pairs_true" if exact else "pairs_false")
        if got != exact:
            res["violations"].append(
                core.violation(
                    PROPERTY,
                    {"kind": "dominates-vs-definition", "cone": cones.name(spec)},
                    {"mode": "rel", "spec": spec, "m": m, "sc": sc, "seed": seed, "far": far},
                    exact,
                    got,
                    f"dominates({a.tolist()},{b.tolist()}) = {got}, exact W(a-b)>=0 is {exact} for cone {cones.name(spec)}",
                )
            )
            return
    # reflexive
    for i in range(n):
        if not D[i, i]:
            res["violations"].append(
                core.violation(PROPERTY, {"kind": "reflexivity", "cone": cones.name(spec)},
                               {"mode": "rel", "spec": spec, "m": m, "sc": sc, "seed": seed, "far": far},
                               True, False, f"not reflexive at {pts[i].tolist()}"))
            return
    # transitivity on all triples (relation as computed by the implementation)
    Di = D.astype(np.int64)
    two = (Di @ Di) > 0  # exists b: a>=b and b>=c
    bad = two & ~D
    res["evaluations"] += n * n * n
    core.bump(res, "triples", n * n * n)
    if bad.any() and not bnd.any():
        i, j = np.argwhere(bad)[0]
        res["violations"].append(
            core.violation(PROPERTY, {"kind": "transitivity", "cone": cones.name(spec)},
                           {"mode": "rel", "spec": spec, "m": m, "sc": sc, "seed": seed, "far": far},
                           True, False, f"transitivity fails between {pts[i].tolist()} and {pts[j].tolist()}"))
        return
    # antisymmetry for pointed cones (all family members are pointed)
    for i, j in itertools.combinations(range(n), 2):
        if D[i, j] and D[j, i] and not (bnd[i, j] or bnd[j, i]):
            res["violations"].append(
                core.violation(PROPERTY, {"kind": "antisymmetry", "cone": cones.name(spec)},
                               {"mode": "rel", "spec": spec, "m": m, "sc": sc, "seed": seed, "far": far},
                               False, True, f"{pts[i].tolist()} and {pts[j].tolist()} dominate each other"))
            return
    # translation by every lattice vector, exact scalings (powers of two), scaling by 3 off-boundary
    base = [p * step for p in lattice.grid(m, -2, 2)]
    for t in (base[:: max(1, len(base) // 9)]):
        for i, j in itertools.product(range(n), repeat=2):
            if bnd[i, j]:
                continue
            g = bool(np.all(order.dominates(pts[i] + t, pts[j] + t)))
            res["evaluations"] += 1
            if g != D[i, j]:
                # (a+t)-(b+t) may round differently from a-b only off the dyadic lattice: never here
                res["violations"].append(
                    core.violation(PROPERTY, {"kind": "translation", "cone": cones.name(spec)},
                                   {"mode": "rel", "spec": spec, "m": m, "sc": sc, "seed": seed, "far": far},
                                   bool(D[i, j]), g, f"translation by {t.tolist()} changes dominates({pts[i].tolist()},{pts[j].tolist()})"))
                return
    for c in (0.5, 2.0, 4.0, 3.0):
        for i, j in itertools.product(range(n), repeat=2):
            if bnd[i, j]:
                continue
            if c == 3.0 and not intW:
                vals = _exact_vals(W, pts[i] - pts[j])
                if any(abs(float(v)) <= 1e-9 * sc for v in vals):
                    continue
            g = bool(np.all(order.dominates(c * pts[i], c * pts[j])))
            res["evaluations"] += 1
            if g != D[i, j]:
                res["violations"].append(
                    core.violation(PROPERTY, {"kind": "scaling", "cone": cones.name(spec)},
                                   {"mode": "rel", "spec": spec, "m": m, "sc": sc, "seed": seed, "far": far},
                                   bool(D[i, j]), g, f"scaling by {c} changes dominates({pts[i].tolist()},{pts[j].tolist()})"))
                return
    # batched is_inside on the whole difference lattice vs single calls, list vs ndarray input
    diffs = np.array([pts[i] - pts[j] for i in range(n) for j in range(n)])
    batched = np.asarray(order.ordering_cone.is_inside(diffs)).reshape(n, n)
    lst = np.asarray(order.ordering_cone.is_inside(diffs.tolist())).reshape(n, n)
    res["evaluations"] += 2
    if not (np.array_equal(batched[~bnd], D[~bnd]) and np.array_equal(lst[~bnd], D[~bnd])):
        res["violations"].append(
            core.violation(PROPERTY, {"kind": "batched-vs-single", "cone": cones.name(spec)},
                           {"mode": "rel", "spec": spec, "m": m, "sc": sc, "seed": seed, "far": far},
                           "equal", "differs", "batched / list-input is_inside differs from single-vector calls"))
        return
    single = order.ordering_cone.is_inside(pts[0] - pts[1])
    if np.asarray(single).shape != (1,):
        res["violations"].append(
            core.violation(PROPERTY, {"kind": "single-shape", "cone": cones.name(spec)},
                           {"mode": "rel", "spec": spec, "m": m, "sc": sc, "seed": seed, "far": far},
                           "(1,)", str(np.asarray(single).shape), "single-vector is_inside shape"))
    res["outcomes"].append(f"{cones.name(spec)}:{int(D.sum())}")
    if len(res["samples"]) < 2:
        res["samples"].append({"cone": cones.name(spec), "scale": sc, "a": pts[3].tolist(), "b": pts[7].tolist(),
                               "dominates": bool(D[3, 7])})


def check_theta_geom(thetas, res):
    core.import_vopy()
    from vopy.order import ConeTheta2DOrder

    for th in thetas:
        o = ConeTheta2DOrder(th)
        W = o.ordering_cone.W
        res["evaluations"] += 1
        res["nontrivial"] += 1
        ok = W.shape == (2, 2) and np.allclose(np.linalg.norm(W, axis=1), 1.0, atol=1e-12)
        msg = "rows not unit"
        if ok:
            for sgn in (+1, -1):
                for r in (1.0, 1e-3, 1e3):
                    ain = np.radians(45 + sgn * (th / 2 - 0.5))
                    aout = np.radians(45 + sgn * (th / 2 + 0.5))
                    pin = r * np.array([np.cos(ain), np.sin(ain)])
                    pout = r * np.array([np.cos(aout), np.sin(aout)])
                    if not bool(np.all(o.ordering_cone.is_inside(pin))):
                        ok, msg = False, f"direction {45 + sgn * (th / 2 - 0.5)} deg should be inside"
                    if bool(np.all(o.ordering_cone.is_inside(pout))):
                        ok, msg = False, f"direction {45 + sgn * (th / 2 + 0.5)} deg should be outside"
            diag = np.array([1.0, 1.0])
            if not bool(np.all(o.ordering_cone.is_inside(diag))):
                ok, msg = False, "diagonal not inside"
        if not ok:
            res["violations"].append(
                core.violation(PROPERTY, {"kind": "theta-geometry"}, {"mode": "theta_geom", "thetas": [th]},
                               "cone of opening theta about the diagonal", msg, f"ConeTheta2D({th}): {msg}"))
        res["outcomes"].append("theta-ok" if ok else "theta-bad")
    if thetas and len(res["samples"]) < 2:
        res["samples"].append({"theta": thetas[0]})


def check_ice_geom(items, res):
    core.import_vopy()
    from vopy.order import ConeOrder3DIceCream

    for half, K in items:
        o = ConeOrder3DIceCream(half, K)
        W = o.ordering_cone.W
        res["evaluations"] += 1
        res["nontrivial"] += 1
        ok, msg = True, ""
        if W.shape != (K, 3) or not np.allclose(np.linalg.norm(W, axis=1), 1.0, atol=1e-12):
            ok, msg = False, "rows not unit / wrong shape"
        else:
            a = W.sum(axis=0)
            a = a / np.linalg.norm(a)  # axis = normalised mean of the equally spaced normals
            cosang = W @ a
            want = np.sin(np.radians(half))  # tangent facet: angle(normal, axis) = 90 - half-angle
            if not np.allclose(cosang, want, atol=1e-9):
                ok, msg = False, f"facet/axis angle {np.degrees(np.arccos(cosang)).round(4).tolist()} != {90 - half}"
            # generators of the circular cone lie in the polyhedral cone
            e1 = np.cross(a, [1.0, 0.0, 0.0])
            if np.linalg.norm(e1) < 1e-6:
                e1 = np.cross(a, [0.0, 1.0, 0.0])
            e1 /= np.linalg.norm(e1)
            e2 = np.cross(a, e1)
            for k in range(48):
                ph = 2 * np.pi * k / 48
                g = np.cos(np.radians(half)) * a + np.sin(np.radians(half)) * (np.cos(ph) * e1 + np.sin(ph) * e2)
                if np.min(W @ g) < -1e-9:
                    ok, msg = False, "a generator of the circular cone is outside the polyhedral cone"
            if not bool(np.all(o.ordering_cone.is_inside(a))):
                ok, msg = False, "axis not inside"
            # distinct equally rotated facets
            if len({tuple(np.round(w, 9)) for w in W}) != K:
                ok, msg = False, "facets not distinct"
        if not ok:
            res["violations"].append(
                core.violation(PROPERTY, {"kind": "icecream-geometry"}, {"mode": "ice_geom", "items": [[half, K]]},
                               "tangent facets", msg, f"ConeOrder3DIceCream({half},{K}): {msg}"))
        res["outcomes"].append("ice-ok" if ok else "ice-bad")
    if items and len(res["samples"]) < 2:
        res["samples"].append({"ice": list(items[0])})


def check_named_geom(res):
    core.import_vopy()
    from vopy.order import ComponentwiseOrder, ConeOrder3D

    for m in (2, 3, 4, 5, 6):
        o = ComponentwiseOrder(m)
        res["evaluations"] += 1
        res["nontrivial"] += 1
        if not np.array_equal(o.ordering_cone.W, np.eye(m)):
            res["violations"].append(
                core.violation(PROPERTY, {"kind": "componentwise-geometry"}, {"mode": "named_geom"},
                               "identity", o.ordering_cone.W.tolist(), f"ComponentwiseOrder({m}).W is not the identity"))
    angles = {}
    for kind in ("acute", "right", "obtuse"):
        o = ConeOrder3D(kind)
        W = o.ordering_cone.W
        res["evaluations"] += 1
        res["nontrivial"] += 1
        ok = W.shape == (3, 3) and np.allclose(np.linalg.norm(W, axis=1), 1.0, atol=1e-12)
        ok = ok and bool(np.all(W @ np.ones(3) > 0)) and bool(np.all(o.ordering_cone.is_inside(np.ones(3))))
        # edge (generator) angles classify the cone: pairwise angles between extreme rays
        rays = []
        for i, j in itertools.combinations(range(3), 2):
            r = np.cross(W[i], W[j])
            if np.min(W @ r) < -1e-9:
                r = -r
            rays.append(r / np.linalg.norm(r))
        ang = [np.degrees(np.arccos(np.clip(rays[i] @ rays[j], -1, 1))) for i, j in itertools.combinations(range(3), 2)]
        angles[kind] = ang
        if kind == "acute":
            ok = ok and all(a < 90 - 1e-6 for a in ang)
        if kind == "right":
            ok = ok and all(abs(a - 90) < 1e-9 for a in ang)
        if kind == "obtuse":
            ok = ok and all(a > 90 + 1e-6 for a in ang)
        if not ok:
            res["violations"].append(
                core.violation(PROPERTY, {"kind": "cone3d-geometry", "cone": kind}, {"mode": "named_geom"},
                               "unit normals, diagonal inside, " + kind, {"ray_angles": ang},
                               f"ConeOrder3D({kind}) geometry wrong: ray angles {ang}"))
        res["outcomes"].append(f"c3d-{kind}-{ok}")
    res["samples"].append({"ConeOrder3D ray angles": angles})


def run_unit(unit):
    res = core.new_result()
    if unit[0] == "rel":
        check_relation(unit[1], unit[2], unit[3], unit[4], res, far=(unit[5] if len(unit) > 5 else 0))
    elif unit[0] == "theta_geom":
        check_theta_geom(unit[1], res)
    elif unit[0] == "ice_geom":
        check_ice_geom(unit[1], res)
    elif unit[0] == "named_geom":
        check_named_geom(res)
    return res


def replay_case(case):
    res = core.new_result()
    if case["mode"] == "rel":
        spec = case["spec"]
        spec = tuple(tuple(tuple(r) for r in s) if isinstance(s, list) else s for s in spec)
        check_relation(spec, case["m"], case["sc"], case["seed"], res, far=case.get("far", 0))
    elif case["mode"] == "theta_geom":
        check_theta_geom(case["thetas"], res)
    elif case["mode"] == "ice_geom":
        check_ice_geom([tuple(x) for x in case["items"]], res)
    else:
        check_named_geom(res)
    return res["violations"]


def finish(ctx, merged):
    c = merged["counters"]
    if not c.get("pairs_true") or not c.get("pairs_false"):
        return {"harness_error": "vacuous: a verdict class is empty"}
    return {}
