"""C15 - GP models return the exact posterior of exactly the data they hold.

opseq engine: every add/update/clear history up to depth D per (model class, input dim, objective
count, noise form, hyper-parameter preset); objects are rebuilt and the prefix replayed for each
sequence (live gpytorch objects do not copy reliably).  After every update() the real predict() is
compared, for N* in {1,2,5} test points, with closed-form GP conditioning computed in numpy from the
model's own hyper-parameters (read from the gpytorch modules) and the data held at that update.
Factory helpers are exercised with 0/1/3 initial samples (np.random.choice owned by the harness).
"""
import itertools

import numpy as np

from vmc import core

PROPERTY = "C15"
LEVEL = "model_checking"
RULE = ("all histories of depth <= D (quick 4, thorough 5) over {add 1 point, add 2 points, add a repeated input, update, clear} (model list: "
        "per-objective index forms int / mixed list) per configuration (3 model classes x input dim 1-3 x objectives 2-3 x scalar / full-matrix "
        "noise x hyper-parameter presets), predictions for N* in {1,2,5} after every update vs closed-form conditioning; factory helpers with "
        "0/1/3 initial samples; state = data held at last update; non-trivial = distinct (configuration, data multiset) states compared")
ASSUMPTIONS = [
    "closed-form conditioning in float64 numpy (Cholesky-free solve) vs gpytorch: relative tolerance 1e-6",
    "hyper-parameters are read from the gpytorch modules (the model's own kernel, mean constant and noise); well-conditioned presets only",
    "IndependentExactGPyTorchModel with full-matrix noise: only means and marginal variances are compared (the class reports a diagonal covariance by design)",
]

TOL = 1e-6


# ---------------------------------------------------------------------------------------------
# closed forms


def rbf(X1, X2, ls):
    X1 = np.atleast_2d(X1) / ls
    X2 = np.atleast_2d(X2) / ls
    d2 = np.sum(X1 ** 2, 1)[:, None] + np.sum(X2 ** 2, 1)[None, :] - 2 * X1 @ X2.T
    return np.exp(-0.5 * np.maximum(d2, 0.0))


def condition(Ktt, Kst, Kss, noise, y, m_t, m_s):
    """posterior at test 's' given train 't' (already flattened)"""
    if len(y) == 0:
        return m_s, Kss
    A = Ktt + noise
    sol = np.linalg.solve(A, np.concatenate([(y - m_t)[:, None], Kst.T], axis=1))
    mu = m_s + Kst @ sol[:, 0]
    cov = Kss - Kst @ sol[:, 1:]
    return mu, cov


def hyper(model, kind):
    """read the model's own hyper-parameters from its gpytorch modules"""
    g = model.model
    if kind == "ind":
        cm = g.covar_module
        os_ = cm.outputscale.detach().numpy().reshape(-1)
        ls = cm.base_kernel.lengthscale.detach().numpy().reshape(len(os_), -1)
        return {"os": os_, "ls": ls}
    if kind == "cor":
        cm = g.covar_module
        ls = cm.data_covar_module.lengthscale.detach().numpy().reshape(-1)
        tc = cm.task_covar_module
        F = tc.covar_factor.detach().numpy()
        var = tc.var.detach().numpy().reshape(-1)
        return {"ls": ls, "B": F @ F.T + np.diag(var), "taskvar": var}
    out = []
    for mm in g.models:
        out.append({"c": float(mm.mean_module.constant.detach()), "os": float(mm.covar_module.outputscale.detach()),
                    "ls": mm.covar_module.base_kernel.lengthscale.detach().numpy().reshape(-1), "noise": float(mm.likelihood.noise.detach().reshape(-1)[0])})
    return out


def noise_of(model, m):
    lk = model.likelihood
    if model.noise_var.dim() > 1:
        return np.array(lk.task_noise_covar.detach().numpy(), float)
    return np.eye(m) * float(lk.noise.detach().reshape(-1)[0])


def closed_form(model, kind, data, Xs):
    """returns (means (N,m), covs (N,m,m)) for each test point separately"""
    Xs = np.atleast_2d(Xs)
    if kind == "list":
        hp = hyper(model, kind)
        m = len(hp)
        mu = np.zeros((len(Xs), m))
        cov = np.zeros((len(Xs), m, m))
        for k, h in enumerate(hp):
            Xt, yt = data[k]
            Xt = np.asarray(Xt, float).reshape(-1, Xs.shape[1])
            yt = np.asarray(yt, float).reshape(-1)
            for s, xs in enumerate(Xs):
                xs = xs[None, :]
                Ktt = h["os"] * rbf(Xt, Xt, h["ls"]) if len(Xt) else np.zeros((0, 0))
                Kst = h["os"] * rbf(xs, Xt, h["ls"]) if len(Xt) else np.zeros((1, 0))
                Kss = h["os"] * rbf(xs, xs, h["ls"])
                a, b = condition(Ktt, Kst, Kss, h["noise"] * np.eye(len(Xt)), yt, np.full(len(Xt), h["c"]), np.full(1, h["c"]))
                mu[s, k] = a[0]
                cov[s, k, k] = b[0, 0]
        return mu, cov
    Xt, Yt = data
    Xt = np.asarray(Xt, float).reshape(-1, Xs.shape[1])
    Yt = np.asarray(Yt, float)
    m = model.output_dim
    Yt = Yt.reshape(-1, m)
    N = len(Xt)
    hp = hyper(model, kind)
    Nz = noise_of(model, m)

    def full(Xa, Xb):
        # interleaved layout: index (n, t) -> n*m + t
        if kind == "ind":
            K = np.zeros((len(Xa) * m, len(Xb) * m))
            for t in range(m):
                K[t::m, t::m] = hp["os"][t] * rbf(Xa, Xb, hp["ls"][t])
            return K
        return np.kron(rbf(Xa, Xb, hp["ls"]), hp["B"])

    mu = np.zeros((len(Xs), m))
    cov = np.zeros((len(Xs), m, m))
    Ktt = full(Xt, Xt) if N else np.zeros((0, 0))
    noise = np.kron(np.eye(N), Nz) if N else np.zeros((0, 0))
    y = Yt.reshape(-1)
    for s, xs in enumerate(Xs):
        xs = xs[None, :]
        Kst = full(xs, Xt) if N else np.zeros((m, 0))
        Kss = full(xs, xs)
        a, b = condition(Ktt, Kst, Kss, noise, y, np.zeros(N * m), np.zeros(m))
        mu[s] = a
        cov[s] = b
    return mu, cov


# ---------------------------------------------------------------------------------------------
# configurations and alphabets


def configs(ctx):
    out = []
    for kind in ("ind", "cor", "list"):
        for d, m in ((1, 2), (2, 2), (3, 2), (1, 3), (2, 3)):
            noises = ["scalar"] + (["matrix"] if kind != "list" else [])
            for nz in noises:
                for preset in ("default", "custom"):
                    if not ctx.thorough:
                        # quick: a covering subset
                        keep = (d, m, nz, preset) in {(1, 2, "scalar", "default"), (2, 2, "scalar", "custom"), (3, 2, "scalar", "custom"),
                                                       (1, 3, "scalar", "custom"), (2, 3, "matrix", "custom"), (1, 2, "matrix", "default")}
                        if not keep:
                            continue
                    out.append((kind, d, m, nz, preset))
        out.append((kind, 2, 2, "scalar", "bulk"))
        if ctx.thorough:
            out.append((kind, 1, 3, "scalar", "bulk"))
    return out


def make_model(kind, d, m, nz):
    from vopy.models import CorrelatedExactGPyTorchModel, GPyTorchModelListExactModel, IndependentExactGPyTorchModel

    if nz == "matrix":
        A = np.array([[0.3, 0.05, 0.0], [0.05, 0.2, 0.02], [0.0, 0.02, 0.25]])[:m, :m]
        noise = A
    else:
        noise = 0.1
    cls = {"ind": IndependentExactGPyTorchModel, "cor": CorrelatedExactGPyTorchModel, "list": GPyTorchModelListExactModel}[kind]
    return cls(d, m, noise)


def apply_preset(model, kind, d, m, preset):
    import torch

    if preset in ("default", "bulk") or model.model is None:
        return
    g = model.model
    with torch.no_grad():
        if kind == "ind":
            g.covar_module.base_kernel.lengthscale = torch.tensor([[0.3 + 0.2 * t + 0.1 * k for k in range(d)] for t in range(m)]).reshape(m, 1, d)
            g.covar_module.outputscale = torch.tensor([2.0 - 0.5 * t for t in range(m)])
        elif kind == "cor":
            g.covar_module.data_covar_module.lengthscale = torch.tensor([[0.4 + 0.15 * k for k in range(d)]])
            F = torch.tensor([[1.0, 0.0, 0.0], [0.5, 0.8, 0.0], [-0.3, 0.2, 0.6]])[:m, :m]
            g.covar_module.task_covar_module.covar_factor.copy_(F)
            g.covar_module.task_covar_module.var = torch.tensor([0.2, 0.1, 0.3][:m])
        else:
            for t, mm in enumerate(g.models):
                mm.covar_module.base_kernel.lengthscale = torch.tensor([[0.35 + 0.2 * t + 0.05 * k for k in range(d)]])
                mm.covar_module.outputscale = torch.tensor(1.5 + 0.5 * t)
                mm.mean_module.constant = torch.tensor(0.4 - 0.7 * t)
    if hasattr(g, "prediction_strategy"):
        g.prediction_strategy = None
    if kind == "list":
        for mm in g.models:
            mm.prediction_strategy = None


GRID = [0.125, 0.375, 0.625, 0.875]


def pt(i, d):
    return np.array([GRID[(i + 2 * k) % 4] + 0.03125 * ((i // 4 + k) % 3) for k in range(d)])


def yv(i, m):
    return np.array([((i * 3 + 2 * t) % 5 - 2) * 0.5 for t in range(m)])


def ops_for(kind, preset="default"):
    if preset == "bulk":
        # larger training sets (up to ~50 points): a 12-point batch next to single points
        return ["add12", "add_o0" if kind == "list" else "add1", "update", "clear"]
    if kind == "list":
        return ["add_o0", "add_o1", "add_mixed", "add_rep", "update", "clear"]
    return ["add1", "add2", "add_rep", "update", "clear"]


def _do_add(model, kind, op, counter, d, m, held):
    """apply an add op to the real model; mirror it into `held` (the wrapper-level data)"""
    i = counter[0]
    if op == "add12":
        X = np.array([pt(i + r, d) + 0.004 * ((i + r) // 4) for r in range(12)])
        Yfull = np.array([yv(i + r, m) for r in range(12)])
        counter[0] += 12
        if kind == "list":
            idx = [(i + r) % m for r in range(12)]
            y = np.array([Yfull[r, idx[r]] for r in range(12)])
            model.add_sample(X, y, idx)
            for a, b, o in zip(X, y, idx):
                held[o][0].append(np.array(a)); held[o][1].append(float(b))
        else:
            model.add_sample(X, Yfull)
            for a, b in zip(X, Yfull):
                held[0].append(np.array(a)); held[1].append(np.array(b))
        return
    if kind == "list":
        if op == "add_o0":
            X = np.array([pt(i, d)])
            y = np.array([yv(i, m)[0]])
            model.add_sample(X, y, 0)
            held[0][0].append(np.array(X[0])); held[0][1].append(float(y[0]))
            counter[0] += 1
        elif op == "add_o1":
            X = np.array([pt(i, d), pt(i + 1, d)])
            y = np.array([yv(i, m)[m - 1], yv(i + 1, m)[m - 1]])
            model.add_sample(X, y, m - 1)
            for a, b in zip(X, y):
                held[m - 1][0].append(np.array(a)); held[m - 1][1].append(float(b))
            counter[0] += 2
        elif op == "add_mixed":
            X = np.array([pt(i, d), pt(i + 1, d), pt(i + 2, d)])
            idx = [1, 0, 1]
            y = np.array([yv(i + r, m)[idx[r]] for r in range(3)])
            model.add_sample(X, y, idx)
            for a, b, o in zip(X, y, idx):
                held[o][0].append(np.array(a)); held[o][1].append(float(b))
            counter[0] += 3
        elif op == "add_rep":
            X = np.array([pt(0, d), pt(0, d)])
            y = np.array([yv(i, m)[0], yv(i + 1, m)[1]])
            model.add_sample(X, y, [0, 1])
            held[0][0].append(np.array(X[0])); held[0][1].append(float(y[0]))
            held[1][0].append(np.array(X[1])); held[1][1].append(float(y[1]))
            counter[0] += 2
        return
    if op == "add1":
        X = np.array([pt(i, d)]); Y = np.array([yv(i, m)])
        counter[0] += 1
    elif op == "add2":
        X = np.array([pt(i, d), pt(i + 1, d)]); Y = np.array([yv(i, m), yv(i + 1, m)])
        counter[0] += 2
    else:  # repeated input (same x as the very first lattice point, new values)
        X = np.array([pt(0, d)]); Y = np.array([yv(i + 1, m)])
        counter[0] += 1
    model.add_sample(X, Y)
    for a, b in zip(X, Y):
        held[0].append(np.array(a)); held[1].append(np.array(b))


class _Spy:
    """forwards add_sample to the real model and remembers the caller-side arrays it was handed"""

    def __init__(self, model):
        self._m = model
        self.handed = []

    def add_sample(self, X, Y, *a, **k):
        self.handed += [X, Y]
        return self._m.add_sample(X, Y, *a, **k)


def do_add(model, kind, op, counter, d, m, held):
    """the add op, after which the caller's own arrays are overwritten: the samples a model holds are the
    values it was GIVEN; what the caller does with its buffers afterwards is the environment's business"""
    spy = _Spy(model)
    _do_add(spy, kind, op, counter, d, m, held)
    for arr in spy.handed:
        if isinstance(arr, np.ndarray):
            arr[...] = 977.0


def empty_held(kind, m):
    if kind == "list":
        return [([], []) for _ in range(m)]
    return ([], [])


def copy_held(kind, held):
    if kind == "list":
        return [(list(a), list(b)) for a, b in held]
    return (list(held[0]), list(held[1]))


def n_held(kind, held):
    if kind == "list":
        return sum(len(a) for a, _ in held)
    return len(held[0])


def test_sets(d):
    return [np.array([pt(1, d) + 0.01]), np.array([pt(0, d), pt(2, d) - 0.02]), np.array([pt(k, d) + 0.005 * k for k in range(5)])]


def compare(model, kind, cfg, data, res, seq, prev_var):
    """predict vs closed form for N* in {1,2,5}; returns violation or None"""
    kind_, d, m, nz, preset = cfg
    case = {"cfg": list(cfg), "seq": list(seq)}

    def bad(k, want, got, msg, extra=None):
        key = {"kind": k, "model": kind}
        if extra:
            key.update(extra)
        return core.violation(PROPERTY, key, case, want, got, f"{kind} model d={d} m={m} noise={nz} preset={preset} after {seq}: {msg}")

    n = n_held(kind, data)
    if kind == "cor" and n == 0:
        return None, prev_var  # the correlated model needs at least one sample (property text)
    var_now = None
    for Xs in test_sets(d):
        res["evaluations"] += 1
        try:
            mu, cov = model.predict(Xs)
        except Exception as e:
            return bad("predict-raised", "prediction", repr(e)[:160], f"predict raised {e!r} with {n} samples held",
                       {"noise": nz, "samples": "0" if n == 0 else ">0"}), prev_var
        mu, cov = np.asarray(mu), np.asarray(cov)
        N = len(Xs)
        if mu.shape != (N, m) or cov.shape != (N, m, m):
            return bad("shape", [(N, m), (N, m, m)], [list(mu.shape), list(cov.shape)],
                       f"predict on N={N} points returned shapes {mu.shape}, {cov.shape} (expected ({N},{m}), ({N},{m},{m}))", {"N": "1" if N == 1 else ">1"}), prev_var
        wm, wc = closed_form(model, kind, data, Xs)
        scale = max(1.0, float(np.max(np.abs(wm))))
        if not np.allclose(mu, wm, rtol=TOL, atol=TOL * scale):
            return bad("mean", wm.tolist(), mu.tolist(), f"posterior mean {np.round(mu, 6).tolist()} != closed form {np.round(wm, 6).tolist()} ({n} samples held)"), prev_var
        if kind == "ind" and nz == "matrix":
            gd, wd = np.diagonal(cov, axis1=1, axis2=2), np.diagonal(wc, axis1=1, axis2=2)
            okc = np.allclose(gd, wd, rtol=TOL, atol=TOL)
        else:
            okc = np.allclose(cov, wc, rtol=TOL, atol=TOL)
        if not okc:
            return bad("covariance", wc.tolist(), cov.tolist(), f"posterior covariance differs from closed form ({n} samples held): got {np.round(cov, 6).tolist()} want {np.round(wc, 6).tolist()}"), prev_var
        if np.min(np.diagonal(cov, axis1=1, axis2=2)) < -1e-9:
            return bad("negative-variance", ">=0", float(np.min(np.diagonal(cov, axis1=1, axis2=2))), "negative posterior variance"), prev_var
        if N == 5:
            var_now = np.diagonal(cov, axis1=1, axis2=2).copy()
    res["nontrivial"] += 1
    return None, var_now


def check_hyper_report(model, kind, cfg, res, seq):
    kind_, d, m, nz, preset = cfg
    case = {"cfg": list(cfg), "seq": list(seq), "what": "get_lengthscale_and_var"}
    try:
        ls, var = model.get_lengthscale_and_var()
    except Exception as e:
        return core.violation(PROPERTY, {"kind": "lengthscale-var-report", "model": kind, "detail": "raised"}, case, "arrays", repr(e)[:160],
                              f"{kind} model d={d} m={m}: get_lengthscale_and_var raised {e!r}")
    ls, var = np.asarray(ls, float), np.asarray(var, float)
    hp = hyper(model, kind)
    if kind == "ind":
        ok = var.shape == (m,) and np.allclose(var, hp["os"]) and ls.size == m * d and np.allclose(ls.reshape(m, d), hp["ls"])
    elif kind == "cor":
        ok = var.shape == (m,) and np.allclose(var, hp["taskvar"]) and ls.size == d and np.allclose(ls.reshape(-1), hp["ls"])
    else:
        ok = var.shape == (m,) and np.allclose(var, [h["os"] for h in hp]) and ls.shape == (m, d) and np.allclose(ls, [h["ls"] for h in hp])
    if not ok:
        return core.violation(PROPERTY, {"kind": "lengthscale-var-report", "model": kind, "detail": "wrong"}, case, "one entry per objective, equal to the kernel's",
                              {"ls": ls.tolist(), "var": var.tolist()}, f"{kind} model d={d} m={m}: reported lengthscales {ls.tolist()} / variances {var.tolist()} do not match the kernel (m={m} objectives)")
    return None


def run_config(cfg, depth, res, only=None):
    core.import_vopy()
    kind, d, m, nz, preset = cfg
    ops = ops_for(kind, preset)
    seen = set()
    kinds = {}
    base_depth = depth
    if kind != "list" and preset != "bulk":
        depth = depth + 1  # one extra level restricted to update...clear...update histories
    for L in range(1, depth + 1):
        for seq in itertools.product(ops, repeat=L):
            if only is not None and list(seq) != list(only):
                continue
            if seq[-1] != "update":
                continue  # only sequences ending in update are observable; prefixes are covered by shorter sequences
            if any(a == b and a in ("update", "clear") for a, b in zip(seq, seq[1:])):
                continue  # prune no-op repeats
            if L > base_depth and not ("clear" in seq[1:-1] and "update" in seq[: seq.index("clear")]):
                continue  # extra level: only histories that update, clear and update again (stale-conditioning patterns)
            model = make_model(kind, d, m, nz)
            held = empty_held(kind, m)
            data_at_update = None
            counter = [0]
            prev_var = None
            res["transitions"] += len(seq)
            v = None
            for k, op in enumerate(seq):
                if op == "update":
                    first = model.model is None
                    model.update()
                    if first:
                        apply_preset(model, kind, d, m, preset)
                    data_at_update = copy_held(kind, held)
                    if k == len(seq) - 1 or True:
                        v, var_now = compare(model, kind, cfg, data_at_update, res, seq[: k + 1], prev_var)
                        if v is not None:
                            break
                        if var_now is not None and prev_var is not None and prev_var[1] and var_now is not None:
                            # variances never grow along add;update edges (no clear in between)
                            if np.any(var_now > prev_var[0] + 1e-8):
                                v = core.violation(PROPERTY, {"kind": "variance-grew", "model": kind}, {"cfg": list(cfg), "seq": list(seq[: k + 1])}, "non-increasing",
                                                   (var_now - prev_var[0]).max(), f"{kind} model: posterior variance grew after adding data: {seq[: k + 1]}")
                                break
                        prev_var = (var_now, True) if var_now is not None else None
                elif op == "clear":
                    model.clear_data()
                    held = empty_held(kind, m)
                    prev_var = None
                else:
                    do_add(model, kind, op, counter, d, m, held)
                if op != "update" and data_at_update is not None and k == len(seq) - 2:
                    # between updates the model still answers for the data it held at its LAST update
                    # (compared once per sequence, right before the final update)
                    v, _ = compare(model, kind, cfg, data_at_update, res, list(seq[: k + 1]) + ["<predict without update>"], None)
                    if v is not None:
                        v["key"]["kind"] = "stale-" + v["key"]["kind"]
                        v["case"]["seq"] = list(seq)  # the replay runs the whole sequence (the stale comparison is part of it)
                        break
            if v is None and L == 1:
                v = check_hyper_report(model, kind, cfg, res, seq)
            if v is not None:
                kk = repr(sorted(v["key"].items()))
                kinds[kk] = kinds.get(kk, 0) + 1
                if kinds[kk] <= 2:
                    res["violations"].append(v)
                if len(kinds) >= 4:
                    return
            if data_at_update is not None:
                seen.add(repr(data_at_update))
    res["states"] += len(seen)
    res["outcomes"].append(f"{cfg}:{len(seen)}")
    res["samples"].append({"config": list(cfg), "depth": depth, "ops": ops, "distinct_data_states": len(seen)})


# ---------------------------------------------------------------------------------------------
# factory helpers


class _P:
    def __init__(self, X, Y):
        self.X, self.Y = X, Y
        self.in_dim = X.shape[1]
        self.out_dim = Y.shape[1]

    def evaluate(self, x, *a, **k):
        x = np.atleast_2d(x)
        idx = [int(np.argmin(np.sum((self.X - r) ** 2, axis=1))) for r in x]
        return self.Y[idx]


def run_factories(unit, res):
    core.import_vopy()
    import vopy.models.gpytorch as G
    from vopy.models import CorrelatedExactGPyTorchModel, IndependentExactGPyTorchModel

    _, d, m, cnt, pick = unit
    X = np.array([pt(i, d) for i in range(6)])
    Y = np.array([yv(i, m) + 0.1 * i for i in range(6)])
    prob = _P(X, Y)
    real_choice = np.random.choice

    def owned_choice(n, size=None, **kw):  # harness-owned randomness: a fixed, seed-independent pick
        base = np.arange(size) * pick % n if size else pick % n
        return base

    for which in ("ind", "cor", "list"):
        np.random.choice = owned_choice
        try:
            if which == "list":
                model = G.get_gpytorch_modellist_w_known_hyperparams(prob, 0.1, cnt, X=X, Y=Y)
            else:
                cls = IndependentExactGPyTorchModel if which == "ind" else CorrelatedExactGPyTorchModel
                model = G.get_gpytorch_model_w_known_hyperparams(cls, prob, 0.1, cnt, X=X, Y=Y)
        finally:
            np.random.choice = real_choice
        res["transitions"] += 1
        cfg = (which, d, m, "scalar", "factory")
        # data the wrapper reports
        if which == "list":
            data = [(list(np.asarray(model.train_inputs[k])), list(np.asarray(model.train_targets[k]))) for k in range(m)]
            n = sum(len(a) for a, _ in data)
        else:
            data = (list(np.asarray(model.train_inputs)), list(np.asarray(model.train_targets)))
            n = len(data[0])
        case = {"mode": "factory", "unit": list(unit), "which": which}
        if n != cnt:
            res["violations"].append(core.violation(PROPERTY, {"kind": "factory-sample-count", "model": which}, case, cnt, n, f"factory({which}) holds {n} samples, asked for {cnt}"))
            continue
        if which == "cor" and cnt == 0:
            continue
        seq = [f"factory(initial_sample_cnt={cnt})"]
        v, _ = compare(model, which, cfg, data, res, seq, None)
        if v is not None:
            v["key"]["kind"] = "factory-" + v["key"]["kind"]
            v["key"]["initial_sample_cnt"] = "0" if cnt == 0 else ">0"
            v["case"] = case
            v["msg"] = f"get_gpytorch_model{'list' if which == 'list' else ''}_w_known_hyperparams(initial_sample_cnt={cnt}, {which}): model is not up to date with the {n} samples it reports: " + v["msg"]
            res["violations"].append(v)
        v2 = check_hyper_report(model, which, cfg, res, seq)
        if v2 is not None:
            res["violations"].append(v2)
    res["samples"].append({"factory_helpers": {"d": d, "m": m, "initial_sample_cnt": cnt}})
    res["outcomes"].append(f"factory:{d}:{m}:{cnt}")


def units(ctx):
    depth = 5 if ctx.thorough else 4
    us = [("cfg", c, depth) for c in configs(ctx)]
    for d, m in ((1, 2), (2, 2), (3, 2), (2, 3)):
        for cnt in (0, 1, 3):
            us.append(("factory", d, m, cnt, 1 + ctx.seed % 5))
    return us


def run_unit(unit):
    res = core.new_result()
    if unit[0] == "cfg":
        run_config(tuple(unit[1]), unit[2], res)
    else:
        run_factories(unit, res)
    return res


def replay_case(case):
    res = core.new_result()
    if case.get("mode") == "factory":
        run_factories(tuple(case["unit"]), res)
    elif case.get("what") == "get_lengthscale_and_var":
        run_config(tuple(case["cfg"]), 1, res, only=["update"])
    else:
        run_config(tuple(case["cfg"]), len(case["seq"]), res, only=list(case["seq"]))
    return res["violations"]


def finish(ctx, merged):
    if merged["nontrivial"] < 200:
        return {"harness_error": "vacuous: too few compared prediction states"}
    return {}
