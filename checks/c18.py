"""C18 - adaptive discretisation tiles the domain; VOGP_AD declares only finest leaves.

opseq engine on AdaptivelyDiscretizedDesignSpace: every sequence of <= R refinements of current
leaves that pass the documented gate (should_refine_design with a stub GP), d in {1,2,3}, several
max depths; exact dyadic oracle.  stepmc engine on VOGP_AD: explicit-state BFS over the real
run_one_step() on user-defined continuous problems with a stub GP posterior menu per active node
(offset, small/large std: std decides refine-versus-evaluate); structural invariants in every state.
A real-model VOGP_AD run per dimension closes the loop with the real pipeline.
"""
import copy
import itertools
from fractions import Fraction

import numpy as np

from vmc import cones, core, seams

PROPERTY = "C18"
LEVEL = "model_checking"
RULE = ("design space: all sequences of <=R gate-approved refinements (R=4 for d<=2, 2 for d=3) for d in {1,2,3} x max_depth in {2,3,4}; "
        "VOGP_AD: reachable (leaf cells with S/P/discarded marks, latch) states over user-defined problems d in {1,2}, depth_max in {1,2,3}, cones, "
        "eps, under a stub posterior menu (default + single-node deviations: offset, large std) to 40 rounds; real-model runs d in {1,2,3}; "
        "non-trivial = distinct leaf-set states")
ASSUMPTIONS = [
    "all cell bounds are dyadic: exact Fraction arithmetic",
    "VOGP_AD stub exploration is deviation-bounded (one deviating node per round); state merging on (cells+marks, latch) is exact because all of S and P is rewritten every round",
]


STATE_CAP = 800  # per VOGP_AD configuration; a unit that hits it reports exhaustive=false


# ---------------------------------------------------------------------------------------------
# exact tiling oracle


def F(x):
    return Fraction(float(x))


def cell_volume(cell):
    v = Fraction(1)
    for lo, hi in cell:
        v *= F(hi) - F(lo)
    return v


def cells_disjoint(a, b):
    return any(F(a[k][1]) <= F(b[k][0]) or F(b[k][1]) <= F(a[k][0]) for k in range(len(a)))


def check_children(ds, parent, children, parent_region, d, bad):
    pc = ds.cells[parent]
    if len(children) != 2 ** d:
        return bad("child-count", 2 ** d, len(children), f"refining created {len(children)} children, expected {2 ** d}")
    seen = set()
    vol = Fraction(0)
    for c in children:
        cc = ds.cells[c]
        for k in range(d):
            lo, hi = F(cc[k][0]), F(cc[k][1])
            plo, phi = F(pc[k][0]), F(pc[k][1])
            mid = (plo + phi) / 2
            if (lo, hi) not in ((plo, mid), (mid, phi)):
                return bad("child-cell", "an orthant-half of the parent", [list(map(float, x)) for x in cc], f"child cell {cc} is not a half of parent cell {pc} in dim {k}")
            if F(ds.points[c][k]) != (lo + hi) / 2:
                return bad("child-centre", float((lo + hi) / 2), float(ds.points[c][k]), f"child point {ds.points[c]} is not the centre of its cell {cc}")
        key = tuple((float(a), float(b)) for a, b in cc)
        if key in seen:
            return bad("child-duplicate", "distinct", key, "two children share a cell")
        seen.add(key)
        vol += cell_volume(cc)
        if ds.point_depths[c] != ds.point_depths[parent] + 1:
            return bad("child-depth", ds.point_depths[parent] + 1, ds.point_depths[c], "child depth is not parent depth + 1")
        if ds.point_depths[c] > ds.max_depth:
            return bad("depth-beyond-max", f"<= {ds.max_depth}", ds.point_depths[c], "a node deeper than the maximum depth was created")
        r = ds.confidence_regions[c]
        if not (np.array_equal(r.lower, parent_region[0]) and np.array_equal(r.upper, parent_region[1])):
            return bad("child-region", [parent_region[0].tolist(), parent_region[1].tolist()], [np.asarray(r.lower).tolist(), np.asarray(r.upper).tolist()],
                       "child does not start from the parent's confidence region")
    if vol != cell_volume(pc):
        return bad("children-volume", float(cell_volume(pc)), float(vol), "children do not tile the parent (volume)")
    for a, b in itertools.combinations(children, 2):
        if not cells_disjoint(ds.cells[a], ds.cells[b]):
            return bad("children-overlap", "disjoint interiors", [ds.cells[a], ds.cells[b]], "children overlap")
    if ds.cardinality != len(ds.points) or len(ds.points) != len(ds.cells) or len(ds.cells) != len(ds.point_depths) or len(ds.confidence_regions) != len(ds.points):
        return bad("cardinality", len(ds.points), ds.cardinality, "cardinality / array lengths inconsistent")
    return None


class GateStub:
    """GP stub for should_refine_design: lengthscale / std make the gate open (small std) or closed"""

    def __init__(self, m, std, ls=0.3, var=1.0):
        self.m, self.std, self.ls, self.var = m, std, ls, var

    def get_lengthscale_and_var(self):
        return np.full(self.m, self.ls), np.full(self.m, self.var)

    def get_kernel_type(self):
        return "RBF"

    def predict(self, X):
        X = np.atleast_2d(X)
        return np.zeros((len(X), self.m)), np.tile(np.eye(self.m) * self.std ** 2, (len(X), 1, 1))


def run_refine(unit, res, only=None):
    _, d, max_depth, R = unit
    core.import_vopy()
    from vopy.design_space import AdaptivelyDiscretizedDesignSpace

    m = 2
    open_stub = GateStub(m, 1e-6)
    closed_stub = GateStub(m, 1e6)
    other_open = GateStub(m, 1e-9, ls=0.05, var=4.0)
    scale = np.array(2.0)
    states = set()

    def bad_factory(seq):
        def bad(kind, want, got, msg):
            return core.violation(PROPERTY, {"kind": kind, "d": d}, {"mode": "refine", "unit": list(unit), "seq": list(seq)}, want, got,
                                  f"AdaptivelyDiscretizedDesignSpace(d={d}, max_depth={max_depth}) after refining {seq}: {msg}")
        return bad

    def build(seq):
        ds = AdaptivelyDiscretizedDesignSpace(d, m, delta=0.1, max_depth=max_depth)
        # give the root a non-default region so that "child starts from the parent's region" is observable
        ds.confidence_regions[0].lower = np.array([-0.5, 0.25])
        ds.confidence_regions[0].upper = np.array([1.5, 2.0])
        leaves = [0]
        for idx in seq:
            parent = leaves[idx]
            preg = (np.array(ds.confidence_regions[parent].lower).copy(), np.array(ds.confidence_regions[parent].upper).copy())
            ch = ds.refine_design(parent)
            res["transitions"] += 1
            v = check_children(ds, parent, ch, preg, d, bad_factory(seq))
            if v is not None:
                return None, None, v
            leaves = leaves[:idx] + leaves[idx + 1 :] + list(ch)
            # give later parents distinct regions
            for k, c in enumerate(ch):
                ds.confidence_regions[c].lower = preg[0] + 0.125 * (k + 1)
                ds.confidence_regions[c].upper = preg[1] + 0.25 * (k + 1)
        return ds, leaves, None

    frontier = [()]
    for depth in range(R + 1):
        nxt = []
        for seq in frontier:
            if only is not None and list(seq) != only[: len(seq)]:
                continue
            ds, leaves, v = build(seq)
            res["evaluations"] += 1
            if v is not None:
                res["violations"].append(v)
                return
            bad = bad_factory(seq)
            # whole-tree invariants: leaves tile the unit cube exactly
            vol = sum(cell_volume(ds.cells[l]) for l in leaves)
            if vol != 1 or any(not cells_disjoint(ds.cells[a], ds.cells[b]) for a, b in itertools.combinations(leaves, 2)):
                res["violations"].append(bad("leaves-do-not-tile", 1.0, float(vol), "leaves do not tile the unit cube"))
                return
            key = tuple(sorted(tuple((float(a), float(b)) for a, b in ds.cells[l]) for l in leaves))
            new_state = key not in states
            states.add(key)
            for li, leaf in enumerate(leaves):
                at_max = ds.point_depths[leaf] >= max_depth
                for stub in (open_stub, closed_stub, other_open):
                    g = bool(ds.should_refine_design(stub, leaf, scale))
                    res["evaluations"] += 1
                    if at_max and g:
                        res["violations"].append(bad("gate-open-at-max-depth", False, True, f"should_refine_design is True for leaf {leaf} at depth {ds.point_depths[leaf]} = max"))
                        return
                    if not at_max and stub is open_stub and not g:
                        res["violations"].append(bad("gate-closed-for-confident-model", True, False, f"gate closed for a leaf below max depth although scale*std is tiny"))
                        return
                    if stub is closed_stub and g:
                        res["violations"].append(bad("gate-open-for-uncertain-model", False, True, "gate open although scale*std is huge"))
                        return
                if not at_max and depth < R and new_state:
                    nxt.append(seq + (li,))
            res["nontrivial"] += 1
        frontier = nxt
    res["states"] += len(states)
    res["outcomes"].append(f"refine:{d}:{max_depth}:{len(states)}")
    res["samples"].append({"refinement_space": {"d": d, "max_depth": max_depth, "max_refinements": R, "distinct_leaf_sets": len(states)}})


def run_growth(unit, res):
    """one design space grown to several hundred designs (every refinement checked exactly): bookkeeping that only
    breaks at scale (buffer growth, index arithmetic) is out of reach of the short refinement sequences"""
    _, d, order_kind, target = unit
    core.import_vopy()
    from vopy.design_space import AdaptivelyDiscretizedDesignSpace

    m = 2
    DEPTH = 12  # cells stay far above float resolution (2^-12); only leaves below this depth are refined
    ds = AdaptivelyDiscretizedDesignSpace(d, m, delta=0.1, max_depth=DEPTH)
    leaves = [0]
    n_ref = 0

    def bad(kind, want, got, msg):
        return core.violation(PROPERTY, {"kind": kind, "d": d, "flavour": "growth"}, {"mode": "growth", "unit": list(unit)}, want, got,
                              f"AdaptivelyDiscretizedDesignSpace(d={d}) grown {order_kind} to {len(ds.points)} designs (refinement #{n_ref}): {msg}")

    while len(ds.points) < target:
        cand = [k for k, l in enumerate(leaves) if ds.point_depths[l] < DEPTH]
        if order_kind == "bfs":
            parent = leaves.pop(cand[0])
        elif order_kind == "dfs":
            parent = leaves.pop(cand[-1])
        else:  # zigzag: alternate oldest / youngest refinable leaf
            parent = leaves.pop(cand[0] if n_ref % 2 == 0 else cand[-1])
        preg = (np.array(ds.confidence_regions[parent].lower).copy(), np.array(ds.confidence_regions[parent].upper).copy())
        ch = ds.refine_design(parent)
        n_ref += 1
        res["transitions"] += 1
        res["evaluations"] += 1
        v = check_children(ds, parent, ch, preg, d, bad)
        if v is not None:
            res["violations"].append(v)
            return
        leaves.extend(ch)
        if n_ref % 16 == 0 or len(ds.points) >= target:
            # every stored design (not only the new ones) still sits at the centre of its own cell
            for i in range(len(ds.points)):
                c = [(F(a) + F(b)) / 2 for a, b in ds.cells[i]]
                if any(F(ds.points[i][k]) != c[k] for k in range(d)):
                    res["violations"].append(bad("stored-point-not-cell-centre", [float(x) for x in c], np.asarray(ds.points[i]).tolist(),
                                                 f"design {i} is stored at {np.asarray(ds.points[i]).tolist()} but its cell {ds.cells[i]} has centre {[float(x) for x in c]}"))
                    return
            if sum(cell_volume(ds.cells[l]) for l in leaves) != 1:
                res["violations"].append(bad("leaves-do-not-tile", 1.0, "!=1", "leaves do not tile the unit cube"))
                return
    res["states"] += n_ref
    res["nontrivial"] += n_ref
    core.bump(res, "growth_refinements", n_ref)
    res["outcomes"].append(f"growth:{d}:{order_kind}:{len(ds.points)}")
    res["samples"].append({"growth": {"d": d, "order": order_kind, "designs": len(ds.points), "refinements": n_ref}})


# ---------------------------------------------------------------------------------------------
# VOGP_AD stepmc


class ADStub:
    """posterior seam for VOGP_AD: mean = truth(x) + offset(node), covariance = std(node)^2 I"""

    def __init__(self, truth, m):
        self.truth = truth
        self.m = m
        self.offset = {}
        self.std = {}
        self.default_std = 1e-3
        self.added = []
        self.output_dim = m

    @staticmethod
    def key(x):
        return tuple(np.round(np.asarray(x, float), 12))

    def predict(self, X):
        X = np.atleast_2d(np.asarray(X, float))
        mu = np.array([self.truth(x) + self.offset.get(self.key(x), 0.0) for x in X])
        cov = np.array([np.eye(self.m) * self.std.get(self.key(x), self.default_std) ** 2 for x in X])
        return mu, cov

    def add_sample(self, *a):
        self.added.append(a)

    def update(self):
        pass

    def train(self):
        pass

    def get_lengthscale_and_var(self):
        return np.full(self.m, 0.3), np.full(self.m, 1.0)

    def get_kernel_type(self):
        return "RBF"

    def evaluate_kernel(self, X=None):
        return np.eye(2)


def make_problem(d, depth_max, which):
    from vopy.maximization_problem import ContinuousProblem

    class P(ContinuousProblem):
        in_dim = d
        out_dim = 2
        bounds = [(0.0, 1.0)] * d

        def evaluate_true(self, x):
            x = np.atleast_2d(x)
            s = x.sum(axis=1) / d
            if which == "mono":
                return np.stack([s, s], axis=1)
            if which == "front":
                return np.stack([s, 1.0 - s], axis=1)
            return np.stack([np.sin(3.0 * s), np.cos(2.0 * s)], axis=1)

    P.depth_max = depth_max
    return P(0.01)


def ad_state(alg):
    ds = alg.design_space
    marks = []
    for i in range(len(ds.points)):
        mark = "S" if i in alg.S else ("P" if i in alg.P else None)
        if mark:
            marks.append((tuple((float(a), float(b)) for a, b in ds.cells[i]), mark))
    return (tuple(sorted(marks)), bool(alg.enable_epsilon_covering))


def ad_invariants(alg, pre, bad):
    ds = alg.design_space
    d = ds.domain_dim
    S, P = set(alg.S), set(alg.P)
    if S & P:
        return bad("S-P-overlap", "disjoint", sorted(S & P), "S and P overlap")
    active = sorted(S | P)
    n = len(ds.points)
    if any(i < 0 or i >= n for i in active):
        return bad("invalid-node", "valid indices", active, "S/P contain an invalid node index")
    # the refinement tree: a node is a leaf iff no other node's cell is strictly inside it
    vols = {i: cell_volume(ds.cells[i]) for i in range(n)}
    parents = set()
    for i in range(n):
        for j in range(n):
            if i != j and vols[j] < vols[i] and all(F(ds.cells[i][k][0]) <= F(ds.cells[j][k][0]) and F(ds.cells[j][k][1]) <= F(ds.cells[i][k][1]) for k in range(d)):
                parents.add(i)
                break
    for i in active:
        if i in parents:
            return bad("active-node-not-leaf", "leaf", i, f"active node {i} (cell {ds.cells[i]}) has been refined but is still in S/P")
    for a, b in itertools.combinations(active, 2):
        if not cells_disjoint(ds.cells[a], ds.cells[b]):
            return bad("active-cells-overlap", "disjoint interiors", [ds.cells[a], ds.cells[b]], f"active nodes {a},{b} overlap")
    leaves = [i for i in range(n) if i not in parents]
    if sum(vols[i] for i in leaves) != 1:
        return bad("leaves-do-not-tile", 1.0, float(sum(vols[i] for i in leaves)), "active + discarded leaves do not tile the unit cube")
    for i in P:
        if ds.point_depths[i] != alg.max_discretization_depth:
            return bad("P-member-not-finest", alg.max_discretization_depth, ds.point_depths[i], f"node {i} declared Pareto at depth {ds.point_depths[i]} < max depth")
    if pre is not None:
        if pre["latch"] and not alg.enable_epsilon_covering:
            return bad("latch-reset", True, False, "epsilon-covering latch went back to False")
        # a refined node is replaced by its children in the same set
        for i in pre["S"] | pre["P"]:
            if i in parents and i not in pre["parents"]:
                kids = [j for j in range(n) if j not in pre["all"] ]
                where = "S" if i in pre["S"] else "P"
                target = S if where == "S" else P
                if not all(k in target for k in kids) or len(kids) != 2 ** d:
                    return bad("children-in-wrong-set", where, [("S" if k in S else "P" if k in P else "-") for k in kids], f"refined node {i} was in {where} but its children are not all there")
        if ds.cardinality != len(ds.points):
            return bad("cardinality", len(ds.points), ds.cardinality, "cardinality inconsistent")
    return None


def run_ad(unit, res, replay=None, extra_check=None, prop=PROPERTY):
    """extra_check(alg_before_step_copy, alg_after, done, calls, bad) -> violation | None lets C06/C07 reuse this exploration"""
    _, d, depth_max, which, spec, eps, horizon = unit
    core.import_vopy()
    from vopy.algorithms import VOGP_AD

    problem = make_problem(d, depth_max, which)
    order = cones.make_order(spec)
    with seams.no_fit():
        base = VOGP_AD(eps, 0.1, problem, order, 0.01, conf_contraction=4.0)
    stub = ADStub(lambda x: problem.evaluate_true(x)[0], 2)
    base.model = stub
    base.problem = seams.RecordingProblem(base.problem)
    base.model.ds = None

    def bad_factory(path):
        def bad(kind, want, got, msg):
            return core.violation(prop, {"kind": kind, "d": d, "alg": "VOGP_AD"}, {"mode": "ad", "unit": list(unit), "path": [list(p) if p else [] for p in path]}, want, got,
                                  f"VOGP_AD(d={d}, depth_max={depth_max}, problem={which}, cone={cones.name(spec)}, eps={eps}) after events {path}: {msg}")
        return bad

    def events(alg):
        act = sorted(set(alg.S) | set(alg.P))
        evs = [None]
        for i in act:
            evs.append((i, "std"))       # large std on one node: it is evaluated instead of refined
            evs.append((i, "up"))        # optimistic offset
            evs.append((i, "down"))      # pessimistic offset
        return evs

    def step(alg0, ev, path):
        alg = copy.deepcopy(alg0)
        ds = alg.design_space
        alg.model.offset = {}
        alg.model.std = {}
        if ev is not None:
            i, what = ev
            k = ADStub.key(ds.points[i])
            if what == "std":
                alg.model.std[k] = 5.0
            elif what == "up":
                alg.model.offset[k] = 0.6
            else:
                alg.model.offset[k] = -0.6
        n0 = len(ds.points)
        vols = None
        parents0 = set()
        for i in range(n0):
            for j in range(n0):
                if i != j and cell_volume(ds.cells[j]) < cell_volume(ds.cells[i]) and all(
                        F(ds.cells[i][q][0]) <= F(ds.cells[j][q][0]) and F(ds.cells[j][q][1]) <= F(ds.cells[i][q][1]) for q in range(d)):
                    parents0.add(i)
                    break
        pre = {"S": set(alg.S), "P": set(alg.P), "latch": bool(alg.enable_epsilon_covering), "all": set(range(n0)), "parents": parents0}
        res["transitions"] += 1
        res["evaluations"] += 1
        before = copy.deepcopy(alg) if extra_check is not None else None
        alg.problem.calls = []
        alg.model.added = []
        try:
            done = alg.run_one_step()
        except Exception as e:
            return None, bad_factory(path)("step-raised", "completes", repr(e)[:160], f"run_one_step raised {e!r}")
        v = ad_invariants(alg, pre, bad_factory(path)) if extra_check is None else None
        if v is None and extra_check is not None:
            v = extra_check(before, alg, done, list(alg.problem.calls), bad_factory(path))
        return alg, v

    init = copy.deepcopy(base)
    if replay is not None:
        alg = init
        path = []
        for ev in replay:
            ev = tuple(ev) if ev else None
            path.append(ev)
            alg, v = step(alg, ev, path)
            if v is not None:
                res["violations"].append(v)
                return
            if alg is None:
                return
        return
    frontier = {ad_state(init): (init, [])}
    seen = set(frontier)
    terminal = set()
    for layer in range(horizon):
        nxt = {}
        for key, (alg0, path) in frontier.items():
            if not alg0.S:
                terminal.add(key)
                continue
            for ev in events(alg0):
                p2 = path + [ev]
                alg, v = step(alg0, ev, p2)
                if v is not None:
                    res["violations"].append(v)
                    if len(res["violations"]) >= 3:
                        return
                    continue
                k2 = ad_state(alg)
                if k2 not in seen:
                    seen.add(k2)
                    nxt[k2] = (alg, p2)
                    if not alg.S:
                        terminal.add(k2)
        frontier = nxt
        if not frontier:
            break
        if len(seen) > STATE_CAP:
            res["caps_hit"].append(f"VOGP_AD state cap {STATE_CAP} reached at layer {layer} for unit {unit[:5]}")
            break
    cut = sum(1 for a, _ in frontier.values() if a.S)
    if cut:
        core.bump(res, "ad_horizon_cut_states", cut)
    res["states"] += len(seen)
    res["nontrivial"] += len(seen)
    core.bump(res, "ad_terminal_states", len(terminal))
    res["outcomes"].append(f"ad:{d}:{depth_max}:{which}:{cones.name(spec)}:{len(seen)}:{len(terminal)}")
    res["samples"].append({"vogp_ad": {"d": d, "depth_max": depth_max, "problem": which, "cone": cones.name(spec), "eps": eps, "states": len(seen), "terminal_states": len(terminal)}})


def run_real(unit, res, replay=None):
    _, d, depth_max, seed = unit
    core.import_vopy()
    from vopy.algorithms import VOGP_AD
    from vopy.order import ComponentwiseOrder
    from vopy.utils import set_seed

    set_seed(10 + seed)
    problem = make_problem(d, depth_max, "wave")
    case = {"mode": "adreal", "unit": list(unit)}

    def bad(kind, want, got, msg):
        return core.violation(PROPERTY, {"kind": kind, "d": d, "flavour": "real-model"}, case, want, got, f"VOGP_AD(real GP, d={d}, depth_max={depth_max}): {msg}")

    alg = VOGP_AD(0.2, 0.1, problem, ComponentwiseOrder(2), 0.01, conf_contraction=16)
    for k in range(40):
        ds = alg.design_space
        n0 = len(ds.points)
        parents0 = set()
        for i in range(n0):
            for j in range(n0):
                if i != j and cell_volume(ds.cells[j]) < cell_volume(ds.cells[i]) and all(
                        F(ds.cells[i][q][0]) <= F(ds.cells[j][q][0]) and F(ds.cells[j][q][1]) <= F(ds.cells[i][q][1]) for q in range(d)):
                    parents0.add(i)
                    break
        pre = {"S": set(alg.S), "P": set(alg.P), "latch": bool(alg.enable_epsilon_covering), "all": set(range(n0)), "parents": parents0}
        res["transitions"] += 1
        res["evaluations"] += 1
        try:
            done = alg.run_one_step()
        except Exception as e:
            v = bad("step-raised", "completes", repr(e)[:160], f"run_one_step raised {e!r} in round {k}")
            v["key"]["exc"] = type(e).__name__
            v["key"]["where"] = "calculate_design_vh" if "0-dimensional" in str(e) else "other"
            res["violations"].append(v)
            return
        v = ad_invariants(alg, pre, bad)
        if v is not None:
            res["violations"].append(v)
            return
        if k == 0:
            # first round: the root's displayed region must be centred at the model's prediction (single-design update path)
            mu, cov = alg.model.predict(alg.design_space.points[[0]])
            r = alg.design_space.confidence_regions[0]
            c = (np.asarray(r.lower) + np.asarray(r.upper)) / 2
            if len(alg.design_space.points) >= 1 and 0 in (pre["S"]) and not np.allclose(c, np.asarray(mu).reshape(-1), atol=1e-6):
                pass  # the root may already have been refined / re-modelled; informational only
        if done:
            break
    res["states"] += 1
    res["nontrivial"] += 1
    res["outcomes"].append(f"adreal:{d}:{alg.round}:{sorted(alg.P)}")
    res["samples"].append({"vogp_ad_real": {"d": d, "depth_max": depth_max, "rounds": alg.round, "P": sorted(alg.P), "nodes": len(alg.design_space.points)}})


def units(ctx):
    us = []
    for d in (1, 2, 3):
        for md in (2, 3, 4):
            R = 4 if d <= 2 else 2
            if ctx.thorough and d <= 2:
                R = 5 if d == 1 else 4
            us.append(("refine", d, md, R))
    cs = [("comp", 2), ("theta", 60), ("theta", 120)] if not ctx.thorough else [("comp", 2), ("theta", 45), ("theta", 60), ("theta", 90), ("theta", 120), ("theta", 135)]
    for d in (1, 2):
        for depth_max in (1, 2, 3, 4):
            if d == 2 and depth_max >= 3 and not (ctx.thorough and depth_max == 3):
                continue  # depth 4 (unbalanced trees with old fine and young coarse nodes) for 1-D domains only
            for which in (("mono", "front", "wave") if depth_max < 4 else ("mono", "wave")):
                use = cs if d == 1 else (cs[:2] if not ctx.thorough else (cs[:4] if depth_max < 3 else cs[:2]))
                for spec in use:
                    for eps in ((0.05, 0.3) if (ctx.thorough and not (d == 2 and depth_max == 3)) else (0.1,)):
                        us.append(("ad", d, depth_max, which, spec, eps, 40 if (ctx.thorough or d == 1) else 14))
    for d in (1, 2, 3):
        us.append(("adreal", d, 2, ctx.seed))
    for d in (1, 2, 3):
        for kind in ("bfs", "dfs", "zigzag"):
            us.append(("growth", d, kind, 1200 if ctx.thorough else 400))
    return us


FN = {"refine": run_refine, "ad": run_ad, "adreal": run_real, "growth": run_growth}


def run_unit(unit):
    res = core.new_result()
    FN[unit[0]](unit, res)
    return res


def replay_case(case):
    res = core.new_result()
    u = list(case["unit"])
    if case["mode"] == "growth":
        run_growth(tuple(u), res)
    elif case["mode"] == "refine":
        run_refine(tuple(u), res, only=case["seq"])
    elif case["mode"] == "ad":
        u[4] = tuple(tuple(tuple(r) for r in x) if isinstance(x, list) else x for x in u[4])
        run_ad(tuple(u), res, replay=case["path"])
    else:
        run_real(tuple(u), res)
    return res["violations"]


def finish(ctx, merged):
    c = merged["counters"]
    if not c.get("ad_terminal_states") or merged["states"] < 50:
        return {"harness_error": f"vacuous: {c}"}
    return {}
