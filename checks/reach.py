"""Reachability exploration shared by C01 (PaVeBa family, Auer) and C05 (VOGP, eps-PAL).

Explicit-state BFS over the real run_one_step(): state = (S, P, U, round, frozen regions of P-U,
deviation budget left); event = one *valid* environment answer for the round (for every design the
step rewrites: a region from a finite menu that strictly contains the design's true value).  Every
edge is a valid round, so every path is a valid history; the terminal predicate depends only on the
terminal (P, truth), so merging on the canonical state is exact.  Deviation-bounded: the default
answer is "centred, isotropic, schedule width"; executions with at most B deviating rounds (in a
deviating round one design takes any menu item, or two designs take items of the pair sub-menu)
are all run to termination or to the round horizon.
"""
import copy
import itertools

import numpy as np

from vmc import cones, core, oracles, stepmc

U_UNIT = 0.25  # truth lattice unit u; epsilon = u / 0.6


def eps_of():
    return U_UNIT / 0.6


# ---------------------------------------------------------------------------------------------
# truth datasets


def truths(K, m, thorough, seed=0):
    u = U_UNIT
    out = []
    if K == 2:
        if m == 2:
            ds = [(0, 0), (1, 1), (2, 2), (2, -1), (1, -1), (2, 0), (2, 1), (-1, 2), (0, 1), (1, -2), (2, -2), (0, 2)]
            if not thorough:
                k = seed % 2
                ds = ds[:6] + ds[6 + k :: 2][:2]
        else:
            ds = [(0, 0, 0), (1, 1, 1), (2, 2, 2), (2, -1, 0), (1, -1, 1), (2, 0, 0)]
            if not thorough:
                ds = ds[:4]
        for d in ds:
            out.append(np.array([[0.0] * m, list(d)], float) * u)
    elif K == 3:
        if m == 2:
            ts = [((0, 0), (1, 1), (2, 2)), ((0, 0), (0, 0), (2, 2)), ((0, 2), (1, 1), (2, 0)), ((0, 0), (2, 1), (1, 2)),
                  ((0, 0), (2, 2), (2, 2)), ((0, 0), (2, 0), (0, 2)), ((1, 1), (2, 0), (0, 0)), ((0, 0), (1, 1), (3, -1)),
                  ((0, 0), (2, -1), (4, -2)), ((0, 0), (1, 2), (3, 3))]
            if not thorough:
                ts = ts[:4]
        else:
            ts = [((0, 0, 0), (1, 1, 1), (2, 2, 2)), ((0, 0, 2), (1, 1, 1), (2, 0, 0))]
        for t in ts:
            out.append(np.array(t, float) * u)
    elif K == 4:
        ts = [((0, 0), (1, 1), (2, 2), (3, 3)), ((0, 3), (1, 2), (2, 1), (3, 0)), ((0, 0), (0, 0), (2, 2), (3, -2))]
        for t in ts:
            out.append(np.array(t, float) * u)
    return out


def gap_targeted_truths(W, eps):
    """two-design truths placed in CONE coordinates: W (mu_1 - mu_0) = eps * alpha * (a, b), so that the
    per-facet gaps are a*eps and b*eps whatever the cone looks like (square W only)"""
    W = np.asarray(W, float)
    if W.shape[0] != W.shape[1]:
        return []
    al = oracles.cone_alpha_vec(W)
    out = []
    for ab in ((1.2, 1.2), (1.2, 2.5), (2.5, 1.2), (0.8, 2.5), (2.5, 0.8), (1.2, 0.0)):
        t = np.array(ab[: W.shape[1]] + (1.2,) * (W.shape[1] - 2))
        d = np.linalg.solve(W, eps * al * t)
        out.append(np.array([np.zeros(W.shape[1]), d]))
    return out


# ---------------------------------------------------------------------------------------------
# menus (valid answers only)

RECT_SHAPES = [(1.0, 1.0), (1.0, 0.125), (0.125, 1.0)]
OFFS = [(0, 0), (0.9, 0), (-0.9, 0), (0, 0.9), (0, -0.9), (0.9, 0.9), (-0.9, -0.9), (0.9, -0.9), (-0.9, 0.9)]
ELL_SHAPES = [((1.0, 0.0), (0.0, 1.0)), ((1.0, 0.0), (0.0, 1.0 / 64)), ((1.0 / 64, 0.0), (0.0, 1.0)), ((1.0, 0.8), (0.8, 1.0))]


def rect_menu(m, offs_scale=0.9):
    """items: (shape multipliers, offset multipliers); item 0 = default"""
    if m == 2:
        items = []
        for sh in RECT_SHAPES:
            for o in OFFS:
                items.append((sh, tuple(x / 0.9 * offs_scale for x in o)))
        # a sudden collapse of the posterior (valid: the truth is still inside): tiny isotropic regions
        for o in ((0, 0), (offs_scale, offs_scale), (-offs_scale, -offs_scale)):
            items.append(((0.125, 0.125), o))
        return items
    items = []
    for sh in [(1.0,) * m, (1.0,) + (0.125,) * (m - 1), (0.125,) * (m - 1) + (1.0,)]:
        for o in [(0,) * m, (offs_scale,) * m, (-offs_scale,) * m, (offs_scale,) + (-offs_scale,) * (m - 1), (-offs_scale,) + (offs_scale,) * (m - 1)]:
            items.append((sh, o))
    return items


def rect_pair_menu(m, items):
    keep = []
    for k, (sh, o) in enumerate(items):
        nz = [i for i, x in enumerate(o) if x != 0]
        if m == 2:
            if sh == (0.125, 1.0) and nz == [1]:
                keep.append(k)
            elif sh == (1.0, 0.125) and nz == [0]:
                keep.append(k)
            elif sh == (1.0, 1.0) and len(nz) == 2:
                keep.append(k)
            elif sh == (0.125, 0.125) and len(nz) == 0:
                keep.append(k)
        else:
            if len(nz) == m and sh[0] == 1.0:
                keep.append(k)
    return keep


def ell_menu(m):
    items = []
    shapes = (ELL_SHAPES + [((1.0 / 64, 0.0), (0.0, 1.0 / 64))]) if m == 2 else [np.eye(m).tolist(), np.diag([1.0] + [1.0 / 64] * (m - 1)).tolist(), (np.eye(m) / 64).tolist()]
    for S in shapes:
        S = np.array(S, float)
        lam, V = np.linalg.eigh(S)
        items.append((S, np.zeros(m)))
        for k in range(m):
            for sgn in (0.9, -0.9):
                items.append((S, sgn * np.sqrt(lam[k]) * V[:, k]))
    return items


def ell_pair_menu(m, items):
    base = [k for k, (S, o) in enumerate(items) if np.any(o != 0) and (k < 2 * m + 1 or not np.allclose(S, np.eye(m)))][:8]
    tiny = [k for k, (S, o) in enumerate(items) if np.allclose(S, np.eye(m) / 64) and not np.any(o != 0)]
    return base + tiny


def make_region(kind, item, mu, h):
    if kind == "rect":
        sh, o = item
        hw = h * np.array(sh)
        c = mu + np.array(o) * hw
        return ("rect", c - hw, c + hw)
    S, o = item
    return ("ell", mu + h * np.asarray(o), np.asarray(S) * h * h, 1.0)


def contains(region, mu):
    if region[0] == "rect":
        return bool(np.all(region[1] <= mu + 1e-12) and np.all(mu <= region[2] + 1e-12))
    d = mu - region[1]
    return float(d @ np.linalg.solve(region[2], d)) <= region[3] ** 2 * (1 + 1e-9)


# ---------------------------------------------------------------------------------------------
# terminal / state oracles on the truth


def c01_predicate(W, alpha, eps, mu, P, tol=1e-9):
    """returns list of (kind, design) failures of the C01 conclusion for predicted set P"""
    bad = []
    K = len(mu)
    for i in range(K):
        if i in P:
            continue
        if not any(np.min(W @ (mu[j] - mu[i])) >= -tol for j in P):
            bad.append(("left-out-not-dominated-by-P", i))
    gaps = oracles.gap_values(W, alpha, mu)
    for i in P:
        if gaps[i] > eps + tol:
            bad.append(("gap-exceeds-eps", i))
    return bad


def c01_state_invariant(W, alpha, eps, mu, S, P, tol=1e-9):
    """necessary in every reachable state (discards and P-entries are final, a valid continuation to
    termination exists): every discarded design is weakly dominated by a design still in S or P,
    every member of P has gap <= eps"""
    bad = []
    K = len(mu)
    alive = set(S) | set(P)
    for i in range(K):
        if i in alive:
            continue
        if not any(np.min(W @ (mu[j] - mu[i])) >= -tol for j in alive):
            bad.append(("discarded-not-dominated-by-survivors", i))
    gaps = oracles.gap_values(W, alpha, mu)
    for i in P:
        if gaps[i] > eps + tol:
            bad.append(("gap-exceeds-eps", i))
    return bad


def c05_state_invariant(W, slack, mu, S, P, tol=1e-9):
    bad = []
    K = len(mu)
    alive = set(S) | set(P)
    for i in range(K):
        if i in alive:
            continue
        isolated = all(np.min(W @ (mu[j] + slack - mu[i])) < -tol for j in range(K) if j != i)
        if isolated:
            bad.append(("eps-isolated-design-discarded", i))
    for i in P:
        for j in P:
            if i != j and np.min(W @ (mu[j] - mu[i] - slack)) > tol:
                bad.append(("P-member-dominated-beyond-slack", i))
                break
    return bad


# ---------------------------------------------------------------------------------------------
# the explorer


class Explorer:
    def __init__(self, prop, alg_name, spec, m, K, mu, horizon, budget, res, contraction=None, bandit_h0=None):
        self.prop = prop
        self.alg_name = alg_name
        self.spec = spec
        self.m = m
        self.K = K
        self.mu = np.asarray(mu, float)
        self.horizon = horizon
        self.budget = budget
        self.res = res
        self.fam, self.kind = stepmc.ALGS[alg_name]
        self.eps = eps_of()
        self.W = np.eye(m) if spec is None else cones.W_of(spec)
        self.alpha = oracles.cone_alpha_vec(self.W)
        if self.fam == "vogp":
            self.slack = self.eps * oracles.u_star(self.W)[0] if alg_name == "VOGP" else np.full(m, self.eps)
        self.bandit = alg_name in ("PaVeBa", "Auer")
        kw = {}
        if self.bandit:
            kw = {"contraction": contraction or 1.0, "noise_var": 1.0, "delta": 0.5}
        self.tmpl = stepmc.build_template(alg_name, spec, K, m, self.eps, **kw)
        if self.kind == "rect":
            self.items = rect_menu(m)
            self.pair_items = rect_pair_menu(m, self.items)
        else:
            self.items = ell_menu(m)
            self.pair_items = ell_pair_menu(m, self.items)
        if self.bandit:
            # bandit algorithms own their widths: the menu is the centre offsets only (shape 0)
            n_off = len(OFFS) if (self.kind == "rect" and m == 2) else (5 if self.kind == "rect" else 2 * m + 1)
            self.items = self.items[:n_off]
            self.pair_items = [k for k in range(1, n_off)][:8]
        self.h0 = 2 * U_UNIT
        self.catch = False
        self.hook = None
        self.wfac = None  # optional per-design width factors (C06/C07 runs: unique acquisition maximisers)
        self.violations = []
        self.terminal_P = set()

    def layer_h(self, layer):
        return self.h0 * 2.0 ** (-layer / 2.0)

    def bandit_width(self, alg):
        """half-extent the bandit algorithm itself will use in the next step (own schedule)"""
        c = copy.copy(alg)
        c.round = alg.round + 1
        if self.alg_name == "PaVeBa":
            return float(c.compute_radius())
        b = c.compute_beta()  # Auer, non-empirical: identical rows
        return float(np.asarray(b).reshape(-1)[0])

    def events(self, st, active):
        """list of {design: item_index} with non-default entries only"""
        evs = [dict()]
        if st["budget"] <= 0:
            return evs
        act = sorted(active)
        for i in act:
            for k in range(1, len(self.items)):
                evs.append({i: k})
        for i, j in itertools.combinations(act, 2):
            for a in self.pair_items:
                for b in self.pair_items:
                    evs.append({i: a, j: b})
        return evs

    def canon(self, st):
        fr = tuple(sorted((i, tuple(np.round(np.concatenate([np.ravel(x) for x in r[1:]]), 9))) for i, r in st["frozen"].items()))
        return (tuple(sorted(st["S"])), tuple(sorted(st["P"])), tuple(sorted(st["U"])), st["layer"], st["budget"], fr, st.get("total_cost"))

    def step(self, st, ev, live=None):
        """one real run_one_step() from state `st` under event `ev`.  Default: a fresh copy of the template with the
        state injected.  With `live` (an instance that has itself executed the whole history so far) the step runs on a
        copy of that instance, nothing injected; the stepped instance is left in self.last_alg."""
        if live is not None:
            alg = copy.deepcopy(live)
        else:
            alg = copy.deepcopy(self.tmpl)
            rnd = st["layer"]
            stepmc.inject(alg, st["S"], st["P"], st["U"], rnd=rnd)
            if "total_cost" in st and hasattr(alg, "total_cost"):
                alg.total_cost = st["total_cost"]
            for i, r in st["frozen"].items():
                stepmc.set_region_direct(alg, i, r)
        self.last_alg = alg
        active = stepmc.active_set(alg)
        h = self.bandit_width(alg) if self.bandit else self.layer_h(st["layer"])
        targets = {}
        for i in active:
            item = self.items[ev.get(i, 0)]
            targets[i] = make_region(self.kind, item, self.mu[i], h * (self.wfac[i] if self.wfac is not None else 1.0))
        if self.alg_name == "Auer":
            stepmc.set_display(alg, {i: ("c", (t[1] + t[2]) / 2.0, None) for i, t in targets.items()})
        elif self.alg_name == "PaVeBa":
            # centre only; covariance stays the identity (what the real bandit model reports)
            for i, t in targets.items():
                alg.model.mean[i] = t[1]
        else:
            stepmc.set_display(alg, targets)
        self.res["evaluations"] += 1
        self.res["transitions"] += 1
        pre = stepmc.snapshot(alg)
        if self.catch:
            try:
                done = alg.run_one_step()
            except Exception as e:  # noqa
                self.on_crash(st, ev, alg, pre, e)
                return None, None, targets
        else:
            done = alg.run_one_step()
        if self.hook is not None:
            self.hook(self, st, ev, alg, pre, done, targets)
        regs = stepmc.read_regions(alg, sorted(active | set(alg.P)))
        # harness self-check: the premise (truth inside every displayed active region) really holds
        for i in active:
            if not contains(regs[i], self.mu[i]):
                raise AssertionError(f"harness: displayed region of design {i} does not contain the truth: {regs[i]} mu={self.mu[i]}")
        S2, P2 = set(alg.S), set(alg.P)
        U2 = set(getattr(alg, "U", ()))
        frozen = {i: regs[i] for i in P2 - U2} if self.fam == "paveba" else {}
        st2 = {"S": S2, "P": P2, "U": U2, "layer": st["layer"] + 1, "budget": st["budget"] - (1 if ev else 0), "frozen": frozen}
        if hasattr(alg, "total_cost"):
            st2["total_cost"] = float(alg.total_cost)
        return st2, bool(done), targets

    def check_state(self, st, path):
        if self.prop == "C01":
            bad = c01_state_invariant(self.W, self.alpha, self.eps, self.mu, st["S"], st["P"])
            if not st["S"]:
                bad = c01_predicate(self.W, self.alpha, self.eps, self.mu, st["P"]) or bad
        else:
            bad = c05_state_invariant(self.W, self.slack, self.mu, st["S"], st["P"])
        return bad

    def run(self, replay_path=None):
        st0 = {"S": set(range(self.K)), "P": set(), "U": set(), "layer": 0, "budget": self.budget, "frozen": {}}
        if replay_path is not None:
            return self.run_path(st0, replay_path)
        frontier = {self.canon(st0): (st0, [])}
        seen = set(frontier)
        cut = 0
        for layer in range(self.horizon):
            nxt = {}
            for key, (st, path) in frontier.items():
                if not st["S"]:
                    continue
                alg_probe_active = (set(st["S"]) | set(st["U"])) if self.fam == "paveba" else ((set(st["S"]) | set(st["P"])) if self.fam == "vogp" else set(st["S"]))
                for ev in self.events(st, alg_probe_active):
                    p2 = path + [{str(k): v for k, v in ev.items()}]
                    self.cur_path = p2
                    st2, done, _ = self.step(st, ev)
                    if st2 is None:
                        if len(self.violations) >= 3:
                            return
                        continue
                    self.last_path = p2
                    bad = self.check_state(st2, p2) if self.prop in ("C01", "C05") else None
                    if bad:
                        # a state-invariant failure is only reported once the default (centred)
                        # continuation has been run to termination and the terminal conclusion fails
                        st_t, p_t = self.continue_default(st2, p2)
                        bad_t = self.check_state(st_t, p_t) if st_t is not None else None
                        if bad_t:
                            self.report(bad_t, st_t, p_t)
                            if len(self.violations) >= 3:
                                return
                        else:
                            core.bump(self.res, "invariant_failure_unconfirmed_by_continuation")
                    if not st2["S"]:
                        self.terminal_P.add(tuple(sorted(st2["P"])))
                        if done is not True:
                            pass  # return-value semantics are C06's business
                    k2 = self.canon(st2)
                    if k2 not in seen:
                        seen.add(k2)
                        nxt[k2] = (st2, p2)
            frontier = nxt
            if not frontier:
                break
        cut = sum(1 for st, _ in frontier.values() if st["S"])
        self.res["states"] += len(seen)
        if cut:
            core.bump(self.res, "horizon_cut_states", cut)
        core.bump(self.res, "terminal_outcomes", len(self.terminal_P))
        self.res["outcomes"].append(f"{self.alg_name}|{cones.name(self.spec) if self.spec else 'orth'}|{self.mu.tolist()}|{sorted(self.terminal_P)}")

    def continue_default(self, st, path, cap=None):
        cap = cap or (self.horizon + (150 if self.bandit else 12))
        path = list(path)
        st = dict(st)
        st["budget"] = 0
        while st["S"] and st["layer"] < cap:
            st, _, _ = self.step(st, {})
            st["budget"] = 0
            path.append({})
        if st["S"]:
            return None, path
        return st, path

    def run_path(self, st, path):
        done_path = []
        for ev in path:
            ev = {int(k): v for k, v in ev.items()}
            done_path.append({str(k): v for k, v in ev.items()})
            self.cur_path = list(done_path)
            st, done, _ = self.step(st, ev)
            if st is None:
                return
        if self.prop not in ("C01", "C05"):
            return
        bad = self.check_state(st, path)
        if bad:
            self.report(bad, st, path)

    def report(self, bad, st, path):
        kind, design = bad[0]
        key = {"kind": kind, "alg": self.alg_name, "cone_class": ("right-2D" if self.spec is None and self.m == 2 else ("3D" if self.spec is None else cones.cone_class(self.spec)))}
        case = {"mode": "reach", "prop": self.prop, "alg": self.alg_name, "spec": self.spec, "m": self.m, "K": self.K, "mu": self.mu.tolist(),
                "horizon": self.horizon, "budget": self.budget, "path": path}
        gaps = oracles.gap_values(self.W, self.alpha, self.mu).tolist()
        self.violations.append(core.violation(
            self.prop, key, case, "conclusion holds", {"S": sorted(st["S"]), "P": sorted(st["P"]), "failures": [list(b) for b in bad]},
            f"{self.alg_name} cone={cones.name(self.spec) if self.spec else 'orthant'} eps={self.eps:.4f} truth={self.mu.tolist()} gaps={np.round(gaps, 4).tolist()}: "
            f"after the valid history {path} the state S={sorted(st['S'])} P={sorted(st['P'])} violates: {bad}"))


def run_config(unit, res, replay=None):
    _, prop, alg_name, spec, m, K, mu, horizon, budget = unit[:9]
    core.import_vopy()
    contraction = None
    if alg_name in ("PaVeBa", "Auer"):
        # choose conf_contraction so that the round-1 width is ~ 2u
        probe = stepmc.build_template(alg_name, spec, K, m, eps_of(), contraction=1.0, noise_var=1.0, delta=0.5)
        probe.round = 1
        w1 = float(probe.compute_radius()) if alg_name == "PaVeBa" else float(np.asarray(probe.compute_beta()).reshape(-1)[0])
        contraction = w1 / (2 * U_UNIT)
    ex = Explorer(prop, alg_name, spec, m, K, mu, horizon, budget, res, contraction=contraction)
    ex.run(replay_path=replay)
    res["violations"].extend(ex.violations)
    res["nontrivial"] += len(ex.terminal_P)
    return ex


def run_unit(unit):
    res = core.new_result()
    ex = run_config(unit, res)
    if len(res["samples"]) < 1:
        res["samples"].append({"alg": unit[2], "cone": cones.name(unit[3]) if unit[3] else "orthant", "truth": np.asarray(unit[6]).tolist(),
                               "menu_items": len(ex.items), "pair_items": len(ex.pair_items), "horizon": unit[7], "deviating_rounds": unit[8],
                               "terminal_P_sets": sorted(ex.terminal_P)})
    return res


def _fix_spec(s):
    if s is None:
        return None
    return tuple(tuple(tuple(r) for r in x) if isinstance(x, list) else x for x in s)


def replay_case(case):
    res = core.new_result()
    unit = ("reach", case["prop"], case["alg"], _fix_spec(case["spec"]), case["m"], case["K"], np.array(case["mu"]), case["horizon"], case["budget"])
    run_config(unit, res, replay=case["path"])
    return res["violations"]


# ---------------------------------------------------------------------------------------------
# real-model flavour: GP-generated posterior histories (C01 / C05)


def run_real_reach(unit, res, replay=None):
    """Real models and the real pipeline: every scripted observation path (menu of additive offsets
    replacing the noise) up to `depth`, then noiseless observations, until S is empty.  A history counts
    only if the truth stayed inside every displayed active region in every round (the property's
    premise, checked on the real regions); the conclusion is then evaluated on the terminal P."""
    import torch

    from checks import runs

    _, prop, alg_name, spec, K, cfg, depth, seed = unit
    core.import_vopy()
    m = 2
    base, eps = runs.build_real(alg_name, spec, K, m, cfg, seed)
    truth = np.array(base.problem.inner.dataset.out_data if hasattr(base.problem.inner, "dataset") else base.problem.inner.problem.dataset.out_data, float)
    W = np.eye(m) if spec is None else cones.W_of(spec)
    alpha = oracles.cone_alpha_vec(W)
    fam = stepmc.family(alg_name)
    slack = None
    if fam == "vogp":
        slack = eps * oracles.u_star(W)[0] if alg_name == "VOGP" else np.full(m, eps)
    menu = [0.0, 0.15, -0.15]
    paths = list(itertools.product(range(len(menu)), repeat=depth)) if replay is None else [tuple(replay)]
    outcomes = set()
    for path in paths:
        alg = copy.deepcopy(base)
        np.random.seed(3 + seed)
        torch.manual_seed(3 + seed)
        inner = alg.problem.inner
        state = {"k": 0}

        def script(x, *a, **kw):
            vals = np.asarray(inner.evaluate(x, *a, **dict(kw, noisy=False)))
            k = state["k"]
            return vals + (menu[path[k]] if k < len(path) else 0.0)

        alg.problem.script = script
        valid = True
        done = False
        for step_i in range(cfg.get("max_rounds", 80)):
            state["k"] = step_i
            S0, P0 = set(alg.S), set(alg.P)
            U0 = set(getattr(alg, "U", ()))
            active = (S0 | U0) if fam == "paveba" else ((S0 | P0) if fam == "vogp" else S0)
            res["evaluations"] += 1
            res["transitions"] += 1
            done = alg.run_one_step()
            regs = stepmc.read_regions(alg, sorted(active))
            if not all(contains(regs[i], truth[i]) for i in active):
                valid = False
                break
            if done:
                break
        if not valid:
            core.bump(res, "real_histories_invalid_premise")
            continue
        if not done:
            core.bump(res, "real_histories_not_terminated")
            continue
        core.bump(res, "real_histories_valid_terminated")
        P = set(alg.P)
        if prop == "C01":
            bad = c01_predicate(W, alpha, eps, truth, P)
        else:
            bad = c05_state_invariant(W, slack, truth, set(), P)
        outcomes.add(tuple(sorted(P)))
        if bad:
            res["violations"].append(core.violation(
                prop, {"kind": bad[0][0], "alg": alg_name, "flavour": "real-model"},
                {"mode": "realreach", "unit": list(unit[:7]) + [seed], "path": list(path)}, "conclusion holds", {"P": sorted(P), "failures": [list(b) for b in bad]},
                f"{alg_name}(real GP) cone={cones.name(spec) if spec else 'orthant'} eps={eps} truth={truth.tolist()}: valid history with observation offsets {list(path)} ended with P={sorted(P)} violating {bad}"))
            if len(res["violations"]) >= 3:
                return
    res["states"] += len(paths)
    res["nontrivial"] += len(outcomes)
    res["outcomes"].append(f"real|{alg_name}|{cones.name(spec) if spec else 'orth'}|{seed}|{sorted(outcomes)}")
    res["samples"].append({"flavour": "real-model reachability", "alg": alg_name, "cone": cones.name(spec) if spec else "orthant", "K": K, "observation_paths": len(paths),
                           "terminal_P_sets": sorted(outcomes)})
