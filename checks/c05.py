"""C05 - VOGP / eps-PAL keep eps-isolated optima; P is internally non-eps-dominated.
Explicit-state reachability over the real run_one_step(); see checks/reach.py."""
from checks import reach
from vmc import core

PROPERTY = "C05"
LEVEL = "model_checking"
RULE = ("reachable (S,P,round,deviation budget) states of VOGP / EpsilonPAL under every valid hyper-rectangle posterior of a finite menu "
        "(3 shapes x 9 offsets at 0.9 of the half-extent; widths 2u*2^(-r/2)) per truth dataset x cone; deviation-bounded; "
        "non-trivial = distinct terminal P per configuration")
ASSUMPTIONS = [
    "every explored edge is a valid round (asserted on the displayed regions), so every path is a valid history",
    "state = (S,P,round): all of S and P is rewritten each round, nothing is frozen",
    "truth lattices avoid configurations within 1e-9 of the eps-slack boundary",
]


def units(ctx):
    us = []
    cs = [("comp", 2), ("theta", 45), ("theta", 60), ("theta", 120), ("theta", 135), ("theta", 150), ("theta3", 135)]
    if ctx.thorough:
        cs += [("theta", 30), ("theta", 90), ("theta3", 60), ("W", ((1, 1), (-1, 2)), "unit"), ("W", ((1, 2), (2, 1)), "unit")]
    B = 2 if ctx.thorough else 1
    for spec in cs:
        for mu in reach.truths(2, 2, True, ctx.seed):
            us.append(("reach", PROPERTY, "VOGP", spec, 2, 2, mu, 8, B))
        k3 = reach.truths(3, 2, True)
        if not ctx.thorough:
            k3 = k3[ctx.seed % 2 :: 2][:3]
        for mu in k3:
            us.append(("reach", PROPERTY, "VOGP", spec, 2, 3, mu, 8, 1))
    for spec in (("c3d", "acute"), ("c3d", "obtuse"), ("ice", 30, 4), ("ice", 65, 4)) if ctx.thorough else (("c3d", "acute"), ("ice", 65, 4)):
        for mu in reach.truths(2, 3, ctx.thorough):
            us.append(("reach", PROPERTY, "VOGP", spec, 3, 2, mu, 8, 1))
    for mu in reach.truths(2, 2, True):
        us.append(("reach", PROPERTY, "EpsilonPAL", None, 2, 2, mu, 8, B))
    for mu in reach.truths(3, 2, True)[: (10 if ctx.thorough else 5)]:
        us.append(("reach", PROPERTY, "EpsilonPAL", None, 2, 3, mu, 8, 1))
    if ctx.thorough:
        for mu in reach.truths(4, 2, True):
            us.append(("reach", PROPERTY, "VOGP", ("theta", 120), 2, 4, mu, 8, 1))
            us.append(("reach", PROPERTY, "EpsilonPAL", None, 2, 4, mu, 8, 1))
    from vmc import cones as _cones
    for alg in ("VOGP", "EpsilonPAL"):
        for spec in ([None] if alg == "EpsilonPAL" else [c for c in cs if _cones.W_of(c).shape == (2, 2)]):
            for mu in reach.truths(2, 2, True):
                us.append(("mreach", PROPERTY, alg, spec, 2, 2, mu, 8, 3 if ctx.thorough else 2))
            for mu in reach.truths(3, 2, True)[: (10 if ctx.thorough else 5)]:
                us.append(("mreach", PROPERTY, alg, spec, 2, 3, mu, 8, 2 if ctx.thorough else 1))
    for alg in ("VOGP", "EpsilonPAL"):
        specs = [None] if alg == "EpsilonPAL" else [("comp", 2), ("theta", 60), ("theta", 120)]
        for spec in specs:
            for seed in ((ctx.seed, ctx.seed + 1) if ctx.thorough else (ctx.seed,)):
                us.append(("realreach", PROPERTY, alg, spec, 4, {"contraction": 2.0, "max_rounds": 60}, 3 if ctx.thorough else 2, seed))
    us.sort(key=lambda u: (0 if u[0] == "realreach" else 1, -u[5] if u[0] != "realreach" else 0))
    return us


def run_unit(unit):
    if unit[0] == "mreach":
        from checks import modelreach
        res = core.new_result()
        modelreach.run_mreach(unit, res)
        return res
    if unit[0] == "realreach":
        res = core.new_result()
        reach.run_real_reach(unit, res)
        return res
    return reach.run_unit(unit)


def replay_case(case):
    if case.get("mode") == "mreach":
        from checks import modelreach
        return modelreach.replay_case(case)
    if case.get("mode") == "realreach":
        res = core.new_result()
        u = list(case["unit"])
        u[3] = reach._fix_spec(u[3])
        reach.run_real_reach(tuple(u), res, replay=case["path"])
        return res["violations"]
    return reach.replay_case(case)


def finish(ctx, merged):
    term = set(o.split("|")[-1] for o in merged["outcomes"])
    if len(term) < 3:
        return {"harness_error": f"vacuous: only {len(term)} distinct terminal outcomes"}
    return {"distinct_terminal_outcomes": len(term)}
