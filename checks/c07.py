"""C07 - samples go to the acquisition maximiser among active designs and reach the model.  See checks/runs.py."""
from checks import runs
from vmc import core

PROPERTY = "C07"
LEVEL = "model_checking"
RULE = ("flavour A: reachable states of the eight dataset algorithms under a stub posterior menu (deviation-bounded BFS over the real "
        "run_one_step, recording problem proxy) x cones (2x2, K!=m, 3-D) x confidence types x batch sizes {1,2,K,K+1} x costs/budgets, every "
        "transition checked; flavour B: real models (all nine algorithms incl. NaiveElimination and DecoupledGP) with every scripted observation "
        "path up to a small depth then a fixed-generator noisy continuation; flavour C (C07): every value table in {0,1,2}^n, n<=5, q<=n for "
        "the discrete optimisers; non-trivial = distinct terminal outcomes / tables")
ASSUMPTIONS = [
    "stub flavour: successor depends only on (S,P,U,round,frozen regions,total cost) and the event, so merging on that tuple is exact",
    "real-model flavour is shallow (observation menu of 3 values, depth <= 2) plus one seeded noisy continuation per configuration",
    "VOGP_AD: the C18 explicit-state exploration is reused with this property's transition checks; DecoupledGP (batch 1): the Thompson-entropy value table is recomputed with the real acquisition on a pre-step model copy after restoring the torch generator state, and the requested pair must maximise it; larger batches: data flow only",
]


def units(ctx):
    return runs.units(ctx, PROPERTY)


def run_unit(unit):
    return runs.run_unit(unit)


def replay_case(case):
    return [v for v in runs.replay_case(case) if v["property"] == PROPERTY]


def finish(ctx, merged):
    c = merged["counters"]
    need = ["c06_transitions_checked", "c06_post_completion_checked", "c06_real_post_completion_checked"] if PROPERTY == "C06" else         ["c07_evaluations_checked", "c07_argmax_checked", "c07_real_steps_checked", "c07_real_argmax_checked", "c07_ad_evaluations_checked", "c07_bigidx_checked", "c07_bigidx_unsorted_iteration_orders"]
    missing = [k for k in need if not c.get(k)]
    if missing:
        return {"harness_error": f"vacuous: {missing}"}
    return {}
