"""C04 - at contraction 1 the confidence schedules are valid with probability >= 1 - delta.

grid engine: full product of (delta, K, m, sigma^2) x confidence type x rounds 1..T, eight algorithm
variants.  For each configuration the algorithm is built through its REAL constructor, `round` is
set and the REAL modeling() is run on a stub posterior with a known (mean 0, covariance), and the
region the design space then displays is read back.  Oracle: exact Gaussian / chi-square miss
probability of that measured region under the stated law, summed over designs, objectives and
rounds, plus an analytic tail beyond T.
"""
import copy
import itertools

import numpy as np

from vmc import core, seams, stepmc

PROPERTY = "C04"
LEVEL = "exploration"
RULE = ("configuration grid delta in {1e-6..0.99} (10) x K in {1..1e4} (9) x m in {2..6} x sigma^2 (bandit) x 8 algorithm variants x rounds 1..T "
        "(quick 150, thorough 3000): real constructor -> real modeling() -> measured region; non-trivial = configuration whose union-bound "
        "total (head + analytic tail) is evaluated")
ASSUMPTIONS = [
    "bandit law: mean of t samples ~ N(mu, sigma^2/t I) (only active designs are sampled, once per round); GP law: f ~ N(posterior mean, posterior covariance)",
    "tail beyond T: t^2 * p_t is verified non-increasing on the upper half of the enumerated range and assumed to stay so (true for schedules of the form c*log(C t^2)), giving sum_{t>T} p_t <= p_T * T",
    "delta is covered on a grid; monotonicity of every schedule in delta is checked between grid neighbours",
    "Auer: sigma^2 <= 1 (property text)",
]

DELTAS = [1e-6, 1e-3, 0.01, 0.05, 0.1, 0.25, 0.5, 0.75, 0.9, 0.99]
KS = [1, 2, 3, 5, 10, 32, 128, 500, 10000]
MS = [2, 3, 4, 5, 6]
VARIANTS = ["PaVeBa", "PaVeBaGP-IH", "PaVeBaGP-DE", "PartialGP-rect", "PartialGP-ell", "VOGP", "EpsilonPAL", "Auer"]


def units(ctx):
    us = []
    T = 3000 if ctx.thorough else 150
    for v in VARIANTS:
        for m in MS:
            us.append((v, m, T, ctx.thorough, ctx.seed, "diag"))
            if v not in ("PaVeBa", "Auer"):
                # strongly correlated posterior (rho = 0.95): the per-objective extent must still be scale * marginal std
                us.append((v, m, T, ctx.thorough, ctx.seed, "corr"))
    return us


def sigma_grid(variant):
    if variant == "PaVeBa":
        return [1e-4, 0.01, 0.5, 1.0, 4.0]
    if variant == "Auer":
        return [1e-4, 0.01, 0.5, 1.0]
    return [0.01]


def measure(alg, variant, t, m, stub_sd):
    """run the real modeling() at round t and return per-design (kind, ratios or radius^2 in law units)"""
    fam = stepmc.family(variant)
    if fam == "vogp":
        alg.round = t - 1
    else:
        alg.round = t
    alg.S = set(range(len(alg.model.points)))
    alg.P = set()
    if hasattr(alg, "U"):
        alg.U = set()
    alg.modeling()
    regs = stepmc.read_regions(alg, [0])
    r = regs[0]
    if r[0] == "rect":
        hw = (r[2] - r[1]) / 2.0
        return "rect", hw
    return "ell", (r[2], r[3])  # sigma, alpha


def miss_probability(kind, meas, variant, m, t, sigma2, stub_cov):
    from scipy.stats import chi2, norm

    bandit = variant in ("PaVeBa", "Auer")
    if kind == "rect":
        hw = meas
        sd = np.full(m, np.sqrt(sigma2 / t)) if bandit else np.sqrt(np.diag(stub_cov))
        return float(np.sum(2.0 * norm.sf(hw / sd)))
    Sigma, alpha = meas
    if bandit:
        # region {x : x^T Sigma^-1 x <= alpha^2} with Sigma = I (what the bandit model reports); law N(0, sigma2/t I)
        lam = np.linalg.eigvalsh(Sigma)
        # conservative exact: P(x^T Sigma^-1 x > alpha^2) with x ~ N(0, s I) <= P(|x|^2 > alpha^2 * lam_min)
        return float(chi2.sf(alpha ** 2 * lam.min() * t / sigma2, m))
    # GP: law covariance = the covariance the region was built from
    ratio = np.linalg.eigvalsh(np.linalg.solve(stub_cov, Sigma))  # Sigma == stub_cov expected -> all ones
    return float(chi2.sf(alpha ** 2 * ratio.min(), m))


def frozen_member_scenario(alg0, m, T, res, unit):
    """PaVeBa: a member of P that is no longer useful is not sampled any more, so its region stays the one
    built from its n0 samples.  Every time the displayed region of such a design CHANGES it is a new
    event of the union bound, to be paid for with the law of a mean of n0 samples."""
    from scipy.stats import chi2

    sigma2, delta, K = 0.5, 0.1, 3
    for n0 in (1, 5, 20):
        alg = copy.deepcopy(alg0)
        alg.delta = delta
        alg.design_space.cardinality = K
        alg.noise_var = sigma2
        # grow the template to 3 designs is not needed: designs 0 (candidate) and 1 (frozen member)
        alg.round = n0
        alg.S, alg.P, alg.U = {0, 1}, set(), set()
        alg.modeling()
        alg.S, alg.P, alg.U = {0}, {1}, set()  # design 1 moved to P and is not useful: frozen with n0 samples
        prev = stepmc.read_regions(alg, [1])[1]
        extra = 0.0
        for t in range(n0 + 1, min(T, 150) + 1):
            alg.round = t
            alg.modeling()
            res["evaluations"] += 1
            cur = stepmc.read_regions(alg, [1])[1]
            changed = not (np.array_equal(cur[1], prev[1]) and np.array_equal(cur[2], prev[2]) and cur[3] == prev[3])
            if changed:
                lam = np.linalg.eigvalsh(cur[2])
                extra += float(chi2.sf(cur[3] ** 2 * lam.min() * n0 / sigma2, m))
                prev = cur
        res["nontrivial"] += 1
        core.bump(res, "frozen_member_scenarios")
        if K * extra > delta:
            return core.violation(PROPERTY, {"kind": "frozen-member-region-rebuilt", "alg": "PaVeBa"}, {"unit": list(unit), "cfg": ["frozen", n0]}, f"<= {delta}", K * extra,
                                  f"PaVeBa m={m}: a member of P that stopped being sampled after {n0} rounds has its region rebuilt in later rounds with the current radius; "
                                  f"paid for with the law of a mean of {n0} samples the union bound grows by {K * extra:.3g} > delta={delta}")
    return None


def run_unit(unit, only=None):
    variant, m, T, thorough, seed, covkind = unit
    core.import_vopy()
    res = core.new_result()
    K_real = 2
    spec = None if variant in stepmc.ORTHANT_ONLY else ("comp", m)
    use_emp = False
    alg0 = stepmc.build_template(variant, spec, K_real, m, 0.1, delta=0.1, noise_var=0.01, contraction=1.0)
    stub_sd = np.array([0.3 + 0.2 * d for d in range(m)])
    stub_cov = np.diag(stub_sd ** 2)
    if covkind == "corr":
        R = np.full((m, m), 0.95 if m == 2 else 0.9)
        np.fill_diagonal(R, 1.0)
        stub_cov = np.diag(stub_sd) @ R @ np.diag(stub_sd)
    if variant in ("PaVeBa", "Auer"):
        stub_cov = np.eye(m)
    for i in range(K_real):
        alg0.model.mean[i] = 0.0
        alg0.model.cov[i] = stub_cov
    ts = list(range(1, T + 1))
    if T > 400:
        # rounds 1..400 exactly, then a geometric ladder (p_t is monotone there; sums bounded by the integral test below)
        ts = list(range(1, 401)) + sorted(set(int(round(400 * 1.05 ** k)) for k in range(1, 200) if 400 * 1.05 ** k <= T))
    worst = (0.0, None)
    for sigma2 in sigma_grid(variant):
        prev_scale_by_delta = {}
        for K in KS:
            scales_for_delta = []
            for delta in DELTAS:
                if only is not None and [sigma2, K, delta] != only:
                    continue
                alg = copy.deepcopy(alg0)
                alg.delta = delta
                alg.design_space.cardinality = K
                if hasattr(alg, "noise_var"):
                    alg.noise_var = sigma2
                ps = []
                first_scale = None
                for t in ts:
                    kind, meas = measure(alg, variant, t, m, stub_sd)
                    res["evaluations"] += 1
                    p = miss_probability(kind, meas, variant, m, t, sigma2, stub_cov)
                    ps.append(p)
                    if t == 1:
                        first_scale = float(np.max(meas) if kind == "rect" else meas[1])
                ps = np.array(ps)
                tt = np.array(ts, float)
                # head: exact sum on consecutive rounds, integral-test bound on the geometric ladder
                if len(ts) == T:
                    head = float(K * ps.sum())
                else:
                    head = float(K * ps[:400].sum())
                    for a in range(400, len(ts)):
                        gap = ts[a] - ts[a - 1]
                        head += K * ps[a - 1] * gap  # p_t non-increasing (checked below): each skipped round <= previous enumerated one
                # premise of the tail: t^2 p_t non-increasing on the upper half (and p_t itself non-increasing there)
                half = len(ts) // 2
                g = tt[half:] ** 2 * ps[half:]
                mono = bool(np.all(np.diff(g) <= 1e-18 + 1e-9 * np.abs(g[:-1]))) and bool(np.all(np.diff(ps[half:]) <= 1e-300 + 1e-9 * ps[half:-1]))
                tail = float(K * ps[-1] * ts[-1])
                total = head + tail
                res["nontrivial"] += 1
                case = {"unit": list(unit), "cfg": [sigma2, K, delta]}
                if total / delta > worst[0]:
                    worst = (total / delta, case["cfg"])
                if not mono:
                    res["violations"].append(core.violation(PROPERTY, {"kind": "tail-premise", "alg": variant}, case, "t^2 p_t non-increasing", "not monotone",
                                                            f"{variant} m={m} K={K} delta={delta} sigma2={sigma2}: miss probability is not eventually decreasing like 1/t^2 (tail bound unavailable)"))
                    return res
                if not total <= delta * (1 + 1e-9):
                    res["violations"].append(core.violation(
                        PROPERTY, {"kind": "union-bound-exceeds-delta", "alg": variant}, case, f"<= {delta}", total,
                        f"{variant} m={m} K={K} delta={delta} sigma2={sigma2}: union-bound miss probability of the displayed regions over rounds 1..{T} = {head:.4g} + tail {tail:.3g} = {total:.4g} > delta"))
                    return res
                scales_for_delta.append(first_scale)
            # monotone in delta: smaller delta => region at least as large
            if only is None and any(scales_for_delta[i] < scales_for_delta[i + 1] - 1e-12 for i in range(len(scales_for_delta) - 1)):
                res["violations"].append(core.violation(PROPERTY, {"kind": "not-monotone-in-delta", "alg": variant}, {"unit": list(unit), "cfg": [sigma2, K, DELTAS[0]]},
                                                        "non-increasing in delta", scales_for_delta, f"{variant}: round-1 region size is not monotone in delta: {scales_for_delta}"))
                return res
    if variant == "PaVeBa" and only is None:
        v = frozen_member_scenario(alg0, m, T, res, unit)
        if v is not None:
            res["violations"].append(v)
            return res
    res["outcomes"].append(f"{variant}:{m}:{covkind}:{worst[0]:.3f}")
    core.bump(res, "configs")
    res["samples"].append({"variant": variant, "m": m, "rounds": T, "worst_total_over_delta": worst[0], "at_sigma2_K_delta": worst[1]})
    return res


def replay_case(case):
    u = case["unit"]
    if case["cfg"] and case["cfg"][0] == "frozen":
        res = run_unit((u[0], u[1], u[2], u[3], u[4], u[5] if len(u) > 5 else "diag"))
        return [v for v in res["violations"] if v["key"]["kind"] == "frozen-member-region-rebuilt"]
    res = run_unit((u[0], u[1], u[2], u[3], u[4], u[5] if len(u) > 5 else "diag"), only=case["cfg"])
    return res["violations"]


def finish(ctx, merged):
    return {"worst_total_over_delta_by_variant_m": merged["outcomes"]}
