"""C02 - see checks/onestep.py (one-step explicit-state exploration vs. reference transition)."""
from checks import onestep
from vmc import core

PROPERTY = "C02"
LEVEL = "model_checking"
RULE = ("states = every composition of K in {2,3} designs into S / P&U / P-U / discarded (S non-empty) x every assignment of regions "
        "from a lattice alphabet (12 rectangles / 9 ellipsoids incl. identical, touching, nested, anisotropic, correlated); one real "
        "run_one_step() per state, per algorithm x cone x epsilon; non-trivial = stage decision whose reference verdict is decided with margin")
ASSUMPTIONS = [
    "reference decisions that consult a verdict within tau of its boundary are not compared (counted)",
    "rectangular PaVeBa variants: the slack alpha*eps is interpreted as passed (objective-space shift); its meaning is C10/C01's business",
    "rectangular PaVeBa variants with K != m cones are excluded here (they raise: finding F8 under C06)",
]


def units(ctx):
    return onestep.units(ctx, PROPERTY)


def run_unit(unit):
    return onestep.run_unit(unit)


def replay_case(case):
    return [v for v in onestep.replay_case(case) if v["property"] == PROPERTY]


def finish(ctx, merged):
    c = merged["counters"]
    need = ["discard_yes", "discard_no", "auer_het_discard_yes", "auer_het_discard_no"] if PROPERTY == "C02" else ["pareto_yes", "pareto_no", "useful_yes", "useful_no"]
    from vmc import stepmc
    per_alg = []
    for alg in stepmc.ALGS:
        for k in need:
            if k.startswith("auer_het") or (k.startswith("useful") and stepmc.family(alg) != "paveba"):
                continue
            per_alg.append(f"{alg}:{k}")
    from checks import onestep
    sens = ["sens3:" + k for k in onestep.REF_MUTANTS]
    missing = [k for k in need + per_alg + sens if not c.get(k)]
    if missing:
        return {"harness_error": f"vacuous: decision classes empty: {missing}"}
    return {}
