"""C20 - problems return the nearest design's value plus configured noise; data scaled.

lattice + opseq: every query point of a 4x finer lattice (on-grid, off-grid, equidistant ties) x batch
forms x evaluation-index forms on injected datasets and the bundled Test dataset; the random source
np.random.normal is owned by the harness (basis draws) so the noise map is recovered exactly and its
covariance compared with the configured one; the four bundled datasets and normalise/unnormalise on
a lattice; caller arrays compared bit-for-bit around every call.
"""
import itertools
from fractions import Fraction

import numpy as np

from vmc import core, seams

PROPERTY = "C20"
LEVEL = "exploration"
RULE = ("query points: every point of the 4x finer lattice around injected 1-D/2-D design grids (K<=5) and a lattice slice through the bundled Test "
        "dataset x call forms (1-D single point, batches of 1/2/5) x evaluation_index forms (None, int, per-point list, wrong length); noise: every "
        "basis draw +-e_k and 0 of the owned normal source x configured variances {1e-5,.01,.25,1,4} x installed 2x2/3x3 factors; four bundled "
        "datasets; normalise/unnormalise lattice; non-trivial = distinct (dataset, query, form) cases with a decided nearest design")
ASSUMPTIONS = [
    "numpy's standard-normal generator is trusted to be standard normal; the check proves the output is affine in that source with the right covariance",
    "nearest-design ties (exactly or within 1e-12 relative) accept any nearest design",
    "installed Cholesky-like factors C: realised covariance C^T C or C C^T both accepted (triangle convention not fixed by the API)",
]


class owned_normal:
    """replace np.random.normal by a scripted source"""

    def __init__(self, fn):
        self.fn = fn
        self.shapes = []

    def __enter__(self):
        self.old = np.random.normal

        def fake(loc=0.0, scale=1.0, size=None):
            self.shapes.append(size)
            return self.fn(size)

        np.random.normal = fake
        return self

    def __exit__(self, *a):
        np.random.normal = self.old


def exact_nearest(x, pts):
    d = []
    for p in pts:
        d.append(sum((Fraction(float(a)) - Fraction(float(b))) ** 2 for a, b in zip(x, p)))
    best = min(d)
    near = [i for i, v in enumerate(d) if v == best or (float(v) - float(best)) <= 1e-12 * max(1.0, float(best))]
    return near


def datasets_small():
    out = []
    out.append(("1d-5", np.array([[0.0], [0.25], [0.5], [0.75], [1.0]]), np.array([[1.0, -1.0], [0.5, 0.0], [0.0, 2.0], [-1.5, 0.25], [3.0, 3.0]])))
    out.append(("2d-4", np.array([[0.0, 0.0], [1.0, 0.0], [0.0, 1.0], [1.0, 1.0]]), np.array([[0.0, 1.0, 2.0], [1.0, 0.0, -1.0], [2.0, 2.0, 0.5], [-1.0, 0.5, 0.25]])))
    out.append(("2d-3-uneven", np.array([[0.0, 0.5], [0.5, 0.0], [1.0, 0.75]]), np.array([[1.0, 2.0], [3.0, 4.0], [5.0, 6.0]])))
    return out


def check_lookup(unit, res):
    _, which, seed = unit
    core.import_vopy()
    from vopy.datasets import get_dataset_instance
    from vopy.maximization_problem import DecoupledEvaluationProblem, ProblemFromDataset

    if which == "Test":
        ds = get_dataset_instance("Test")
        X, Y = ds.in_data, ds.out_data
        # lattice slice: midpoints and perturbed copies of the first designs + a coarse grid in the 4-D cube
        qs = [X[i] for i in range(0, 32, 3)] + [(X[i] + X[(i + 1) % 32]) / 2 for i in range(0, 32, 4)]
        qs += [np.array(p) for p in itertools.product((0.0, 0.5, 1.0), repeat=4)][:: 3]
    else:
        name, X, Y = [d for d in datasets_small() if d[0] == which][0]
        ds = get_dataset_instance(seams.inject_dataset(X, Y))
        d = X.shape[1]
        axis = [i / 16.0 - 0.125 for i in range(0, 21)] if d == 1 else [i / 8.0 - 0.125 for i in range(0, 11)]
        qs = [np.array(p) for p in itertools.product(axis, repeat=d)]
    prob = ProblemFromDataset(ds, 0.01)
    dec = DecoupledEvaluationProblem(prob)
    m = Y.shape[1]
    case0 = {"mode": "lookup", "unit": list(unit)}

    def bad(kind, want, got, msg, extra=None):
        res["violations"].append(core.violation(PROPERTY, dict({"kind": kind}, **(extra or {})), case0, want, got, f"[{which}] {msg}"))

    near_cache = {}

    def near(q):
        k = tuple(q)
        if k not in near_cache:
            near_cache[k] = exact_nearest(q, X)
        return near_cache[k]

    n_q = 0
    for qi, q in enumerate(qs):
        nq = near(q)
        res["evaluations"] += 1
        if len(nq) > 1:
            core.bump(res, "tie_queries")
        # single point as 1-D array
        x1 = q.copy()
        keep = x1.copy()
        out = prob.evaluate(x1, noisy=False)
        if not np.array_equal(x1, keep):
            bad("input-mutated", "unchanged", "changed", "evaluate modified the caller's array", {"problem": "ProblemFromDataset"})
            return
        out = np.asarray(out)
        if out.shape != (1, m) or not any(np.array_equal(out[0], Y[i]) for i in nq):
            bad("nearest-lookup", [Y[i].tolist() for i in nq], out.tolist(), f"evaluate({q.tolist()}, noisy=False) = {out.tolist()} but the nearest design(s) {nq} have values {[Y[i].tolist() for i in nq]}")
            return
        res["nontrivial"] += 1
        n_q += 1
    # batches of 1, 2, 5 (sliding windows over the query list)
    for bsz in (1, 2, 5):
        for s in range(0, len(qs) - bsz + 1, max(1, bsz)):
            Q = np.array(qs[s : s + bsz])
            keep = Q.copy()
            out = np.asarray(prob.evaluate(Q, noisy=False))
            res["evaluations"] += 1
            if not np.array_equal(Q, keep):
                bad("input-mutated", "unchanged", "changed", "evaluate modified the caller's batch array", {"problem": "ProblemFromDataset"})
                return
            ok = out.shape == (bsz, m) and all(any(np.array_equal(out[r], Y[i]) for i in near(Q[r])) for r in range(bsz))
            if not ok:
                bad("nearest-lookup-batch", "rows of the nearest designs", out.tolist(), f"batch evaluate of {Q.tolist()} returned {out.tolist()}")
                return
            # decoupled forms
            for form in ("none", "int", "list", "short", "long"):
                if form == "none":
                    ei = None
                elif form == "int":
                    ei = (s + bsz) % m
                elif form == "list":
                    ei = [(s + r) % m for r in range(bsz)]
                elif form == "short":
                    ei = [0] * (bsz - 1) if bsz > 1 else [0, 1]
                else:
                    ei = [0] * (bsz + 1)
                Qd = Q.copy()
                res["evaluations"] += 1
                try:
                    got = dec.evaluate(Qd, ei, noisy=False)
                except ValueError:
                    if form in ("short", "long"):
                        core.bump(res, "wrong_length_rejected")
                        continue
                    bad("decoupled-raised", "values", "ValueError", f"decoupled evaluate raised for evaluation_index={ei}")
                    return
                if form in ("short", "long"):
                    bad("decoupled-wrong-length-accepted", "ValueError", np.asarray(got).tolist(), f"evaluation_index of wrong length {ei} accepted for a batch of {bsz}")
                    return
                if not np.array_equal(Qd, keep):
                    bad("input-mutated", "unchanged", "changed", "decoupled evaluate modified the caller's array", {"problem": "Decoupled"})
                    return
                got = np.asarray(got)
                if form == "none":
                    want = out
                elif form == "int":
                    want = out[:, ei]
                else:
                    want = out[np.arange(bsz), ei]
                if got.shape != np.asarray(want).shape or not np.array_equal(got, want):
                    bad("decoupled-component", np.asarray(want).tolist(), got.tolist(), f"decoupled evaluate(evaluation_index={ei}) returned {got.tolist()}, full evaluation is {out.tolist()}")
                    return
    res["samples"].append({"lookup": which, "queries": len(qs), "designs": len(X)})
    res["outcomes"].append(f"lookup:{which}:{n_q}")


def check_noise(unit, res):
    _, m, seed = unit
    core.import_vopy()
    from vopy.datasets import get_dataset_instance
    from vopy.maximization_problem import ContinuousProblem, DecoupledEvaluationProblem, ProblemFromDataset

    X = np.array([[0.0], [0.5], [1.0]])
    Y = np.array([[1.0, -1.0, 0.5], [0.5, 0.0, 2.0], [0.0, 2.0, -3.0]])[:, :m]
    ds = get_dataset_instance(seams.inject_dataset(X, Y))

    class Lin(ContinuousProblem):
        in_dim = 1
        out_dim = m
        depth_max = 2

        def evaluate_true(self, x):
            return np.hstack([x * (k + 1) for k in range(m)])

    def recover(problem, n, set_factor=None):
        """returns (M, affine_ok, shapes): the linear map from the owned normal draw to the output"""
        Q = np.array([[0.0], [0.5], [1.0], [0.5], [0.0]])[:n]
        rows = []
        d = m
        f0 = None
        shapes = []
        with owned_normal(lambda size: np.zeros(size)) as src:
            f0 = np.asarray(problem.evaluate(Q))
            shapes += src.shapes
        Mrows = np.zeros((d, m))
        affine = True
        for k in range(d):
            for sign in (1.0, -1.0):
                def draw(size, k=k, sign=sign):
                    a = np.zeros(size)
                    a[:, k] = sign
                    return a
                with owned_normal(draw) as src:
                    out = np.asarray(problem.evaluate(Q))
                    shapes += src.shapes
                delta = out - f0
                if not np.allclose(delta, delta[0][None, :], atol=1e-12):
                    affine = False  # same draw in every row must shift every row equally
                if sign > 0:
                    Mrows[k] = delta[0]
                elif not np.allclose(delta[0], -Mrows[k], atol=1e-12):
                    affine = False
        # superposition on a pair of basis draws
        def draw2(size):
            a = np.zeros(size)
            a[:, 0] = 1.0
            a[:, -1] += 2.0
            return a
        with owned_normal(draw2) as src:
            out = np.asarray(problem.evaluate(Q))
        want = f0 + (Mrows[0] + 2.0 * Mrows[-1])[None, :]
        if not np.allclose(out, want, atol=1e-12):
            affine = False
        return Mrows, affine, shapes, f0, Q

    case0 = {"mode": "noise", "unit": list(unit)}
    for nv in (1e-5, 0.01, 0.25, 1.0, 4.0):
        for pname, problem in (("ProblemFromDataset", ProblemFromDataset(ds, nv)), ("ContinuousProblem", Lin(nv))):
            for n in (1, 3, 5):
                res["evaluations"] += 1
                M, affine, shapes, f0, Q = recover(problem, n)
                truth = problem.evaluate(Q, noisy=False)
                ok_mean = np.allclose(f0, truth, atol=1e-12)  # zero draw => exactly the noiseless value: zero-mean noise
                cov = M.T @ M
                if not affine or not ok_mean or not np.allclose(cov, nv * np.eye(m), rtol=1e-9, atol=1e-15):
                    res["violations"].append(core.violation(
                        PROPERTY, {"kind": "noise-law", "problem": pname}, case0, (nv * np.eye(m)).tolist(), cov.tolist(),
                        f"{pname}(noise_var={nv}) n={n}: output is {'not affine' if not affine else 'affine'} in the normal source, zero-draw equals noiseless: {ok_mean}, realised covariance {cov.tolist()} (configured {nv}*I)"))
                    return
                if any(tuple(s) != (n, m) for s in shapes):
                    res["violations"].append(core.violation(PROPERTY, {"kind": "noise-draw-shape", "problem": pname}, case0, [n, m], [list(s) for s in shapes[:3]],
                                                            f"{pname}: requested normal draws of shape {shapes[:3]} for {n} points, {m} objectives"))
                    return
                res["nontrivial"] += 1
    # user-installed correlated factors
    facs = []
    for a, b, c in itertools.product((0.5, 1.0), (-0.5, 0.0, 0.75), (0.25, 2.0)):
        L = np.zeros((m, m))
        L[np.diag_indices(m)] = [a, c, 1.5][:m]
        L[1, 0] = b
        if m == 3:
            L[2, 0] = 0.25
            L[2, 1] = -b
        facs.append(L)
        facs.append(L.T.copy())
    for C in facs:
        problem = ProblemFromDataset(ds, 1.0)
        problem.noise_cholesky = C.copy()
        res["evaluations"] += 1
        M, affine, shapes, f0, Q = recover(problem, 3)
        cov = M.T @ M
        if not affine or not (np.allclose(cov, C.T @ C, atol=1e-12) or np.allclose(cov, C @ C.T, atol=1e-12)):
            res["violations"].append(core.violation(PROPERTY, {"kind": "noise-law-installed-factor"}, case0, [(C.T @ C).tolist(), (C @ C.T).tolist()], cov.tolist(),
                                                    f"installed factor {C.tolist()}: realised covariance {cov.tolist()} is neither C^T C nor C C^T"))
            return
        res["nontrivial"] += 1
    res["samples"].append({"noise": {"objectives": m, "variances": [1e-5, 0.01, 0.25, 1.0, 4.0], "installed_factors": len(facs)}})
    res["outcomes"].append(f"noise:{m}")


def check_mutation_and_branin(unit, res):
    core.import_vopy()
    from vopy.maximization_problem import BraninCurrin, DecoupledEvaluationProblem, get_continuous_problem

    case0 = {"mode": "branin", "unit": list(unit)}
    for factory in (lambda: BraninCurrin(0.01), lambda: get_continuous_problem("BraninCurrin", 0.01)):
        prob = factory()
        dec = DecoupledEvaluationProblem(prob)
        grid = [0.0, 0.25, 0.5, 1.0]
        pts = [np.array(p) for p in itertools.product(grid, repeat=2)]
        for form in ("single", "batch"):
            for noisy in (False, True):
                for target, nm in ((prob, "BraninCurrin"), (dec, "Decoupled(BraninCurrin)")):
                    Qs = [p.copy() for p in pts] if form == "single" else [np.array(pts[i : i + 4]) for i in range(0, len(pts), 4)]
                    for Q in Qs:
                        keep = Q.copy()
                        res["evaluations"] += 1
                        with owned_normal(lambda size: np.zeros(size)):
                            if target is dec:
                                out = target.evaluate(Q, None, noisy=noisy)
                            else:
                                out = target.evaluate(Q, noisy=noisy)
                        if not np.array_equal(Q, keep):
                            res["violations"].append(core.violation(
                                PROPERTY, {"kind": "input-mutated", "problem": "BraninCurrin"}, case0, keep.tolist(), Q.tolist(),
                                f"{nm}.evaluate modified the caller's input array: {keep.tolist()} -> {Q.tolist()}"))
                            return
                        out = np.asarray(out)
                        if out.shape != (np.atleast_2d(keep).shape[0], 2) or not np.all(np.isfinite(out)):
                            res["violations"].append(core.violation(PROPERTY, {"kind": "branin-output"}, case0, "finite (n,2)", out.tolist(), f"{nm} returned {out.tolist()}"))
                            return
                        res["nontrivial"] += 1
    res["samples"].append({"branin_currin": "inputs with 0 in each coordinate, single and batch, noisy and noiseless"})
    res["outcomes"].append("branin")


def check_datasets(unit, res):
    core.import_vopy()
    from vopy.datasets import get_dataset_instance
    from vopy.utils import normalize, unnormalize

    case0 = {"mode": "datasets", "unit": list(unit)}
    sizes = {"Test": (32, 4, 2), "SNW": (206, 3, 2), "DiskBrake": (128, 4, 2), "VehicleSafety": (500, 5, 3)}
    for name, (K, d, m) in sizes.items():
        ds = get_dataset_instance(name)
        res["evaluations"] += 1
        ok = ds.in_data.shape == (K, d) and ds.out_data.shape == (K, m) and ds.in_dim == d and ds.out_dim == m and ds._cardinality == K
        ok = ok and np.allclose(ds.in_data.min(axis=0), 0, atol=1e-12) and np.allclose(ds.in_data.max(axis=0), 1, atol=1e-12)
        ok = ok and np.all(ds.in_data >= -1e-12) and np.all(ds.in_data <= 1 + 1e-12)
        ok = ok and np.allclose(ds.out_data.mean(axis=0), 0, atol=1e-9) and np.allclose(ds.out_data.std(axis=0), 1, atol=1e-9)
        # nothing may be remembered between instantiations: a second and third instance are identical to the first
        for rep in (2, 3):
            ds2 = get_dataset_instance(name)
            res["evaluations"] += 1
            if not (np.array_equal(ds2.in_data, ds.in_data) and np.array_equal(ds2.out_data, ds.out_data)):
                res["violations"].append(core.violation(PROPERTY, {"kind": "dataset-instances-differ", "dataset": name}, case0, "identical instances", f"instance #{rep} differs",
                                                        f"dataset {name}: instance #{rep} created in the same process differs from the first one (max |diff| out_data = {float(np.max(np.abs(ds2.out_data - ds.out_data))):.3g})"))
                return
        if not ok:
            res["violations"].append(core.violation(PROPERTY, {"kind": "dataset-scaling", "dataset": name}, case0, "inputs in [0,1] (min 0,max 1), outputs mean 0 / var 1, declared sizes",
                                                    {"shape": [list(ds.in_data.shape), list(ds.out_data.shape)], "in_min": ds.in_data.min(axis=0).tolist(), "in_max": ds.in_data.max(axis=0).tolist(),
                                                     "out_mean": ds.out_data.mean(axis=0).tolist(), "out_std": ds.out_data.std(axis=0).tolist()}, f"dataset {name} scaling / sizes wrong"))
            return
        res["nontrivial"] += 1
    # normalise / unnormalise are mutual inverses on a lattice of data and bounds
    bounds_alpha = [(-1.0, 1.0), (0.0, 4.0), (2.0, 2.5), (-8.0, -2.0)]
    data = np.array(list(itertools.product((-2.0, 0.0, 0.5, 3.0), repeat=2)))
    for b in itertools.product(bounds_alpha, repeat=2):
        res["evaluations"] += 1
        n = normalize(data, list(b))
        u = unnormalize(n, list(b))
        n2 = normalize(unnormalize(data, list(b)), list(b))
        want = (data - np.array([x[0] for x in b])) / np.array([x[1] - x[0] for x in b])
        if not (np.allclose(u, data, atol=1e-12) and np.allclose(n2, data, atol=1e-12) and np.allclose(n, want, atol=1e-12)):
            res["violations"].append(core.violation(PROPERTY, {"kind": "normalize-inverse"}, case0, "inverse", list(b), f"normalize/unnormalize are not mutual inverses for bounds {b}"))
            return
        res["nontrivial"] += 1
    for fn in (normalize, unnormalize):
        try:
            fn(data, [(0.0, 1.0)])
            res["violations"].append(core.violation(PROPERTY, {"kind": "normalize-bounds-length"}, case0, "ValueError", "accepted", f"{fn.__name__} accepted bounds of the wrong length"))
        except ValueError:
            pass
    res["samples"].append({"datasets": list(sizes), "normalize_bounds_lattice": len(bounds_alpha) ** 2})
    res["outcomes"].append("datasets")


def units(ctx):
    us = [("lookup", w, ctx.seed) for w in ("1d-5", "2d-4", "2d-3-uneven", "Test")]
    us += [("noise", m, ctx.seed) for m in (2, 3)]
    us += [("branin", ctx.seed), ("datasets", ctx.seed)]
    return us


def run_unit(unit):
    res = core.new_result()
    {"lookup": check_lookup, "noise": check_noise, "branin": check_mutation_and_branin, "datasets": check_datasets}[unit[0]](unit, res)
    return res


def replay_case(case):
    res = core.new_result()
    u = tuple(case["unit"])
    {"lookup": check_lookup, "noise": check_noise, "branin": check_mutation_and_branin, "datasets": check_datasets}[u[0]](u, res)
    return res["violations"]


def finish(ctx, merged):
    c = merged["counters"]
    if not c.get("tie_queries") or not c.get("wrong_length_rejected") or merged["nontrivial"] < 300:
        return {"harness_error": f"vacuous: {c}"}
    return {}
