"""C19 - gaps, eps-coverage and eps-F1 agree with their geometric definitions.

lattice engine: all sequences of N<=3 (thorough 4) vectors of the 3x3 lattice x cone family for
get_delta; all ordered lattice pairs x eps grid for is_covered (least-distance oracle by active-set
enumeration, three-valued); eps-F1 recomputed from the definition over every predicted index
subset / permutation; hyper-volume discrepancy with the Sobol source patched to a lattice and a stub
model over every assignment of predicted values from a 3-value alphabet.
"""
import itertools

import numpy as np

from vmc import cones, core, lattice, oracles

PROPERTY = "C19"
LEVEL = "exploration"
RULE = ("value sets: every ordered sequence of N<=3 (4) vectors of the 3x3 lattice (m=2) and N<=3 of the 2x2x2 lattice (m=3) x cone family; "
        "is_covered: every ordered pair of lattice vectors x eps in {0,1/4,1/2,1,2}*step*{1,1.01}; F1: every predicted index subset and permutation "
        "of N=3,4 point sets x eps grid; hypervolume: every assignment of predicted values from a 3-value alphabet to 4-6 lattice points; "
        "non-trivial = comparison decided off the tolerance boundary")
ASSUMPTIONS = [
    "alpha from the KKT oracle of C17 (unit-normalised cones)",
    "is_covered verdicts within tau=1e-6*max(1,|data|) of eps are skipped (SOCP tolerance)",
]


def fam(ctx):
    f2 = [("comp", 2)] + [("theta", t) for t in ((45, 60, 90, 120, 135) if not ctx.thorough else (30, 45, 60, 90, 120, 135, 150))]
    f2 += [("theta3", 135)] + [("W", c[1], "unit") for c in cones.integer_cones_2d()[:: (9 if not ctx.thorough else 3)]]
    f3 = [("comp", 3), ("c3d", "acute"), ("c3d", "obtuse"), ("ice", 30, 4)] + ([("ice", 45, 6)] if ctx.thorough else [])
    return f2, f3


def units(ctx):
    us = []
    f2, f3 = fam(ctx)
    sc = lattice.scales_for(ctx.thorough, ctx.seed, 1)
    for s in sc:
        for spec in f2:
            us.append(("delta", spec, 2, 4 if ctx.thorough else 3, s, ctx.seed))
            us.append(("cover", spec, 2, s, ctx.seed))
        for spec in f3:
            us.append(("delta", spec, 3, 3 if ctx.thorough else 2, s, ctx.seed))
            us.append(("cover", spec, 3, s, ctx.seed))
    for spec in (f2[:4] if not ctx.thorough else f2[:8]):
        for part in range(4):
            us.append(("f1", spec, 2, part, 4, ctx.seed, ctx.thorough))
    for spec in ([("comp", 2), ("theta", 60), ("theta", 120)] if not ctx.thorough else f2[:7]):
        us.append(("hv", spec, ctx.seed, ctx.thorough))
    return us


def pts_of(m, sc, seed):
    off = lattice.offset_for(seed, m, sc)
    return [p * sc + off for p in lattice.grid(m, 0, 2 if m == 2 else 1)]


def run_delta(unit, res, only=None):
    _, spec, m, N, sc, seed = unit
    core.import_vopy()
    from vopy.utils import get_delta

    order = cones.make_order(spec)
    W = order.ordering_cone.W
    al_impl = order.ordering_cone.alpha
    al = oracles.cone_alpha_vec(W)
    pts = pts_of(m, sc, seed)
    tol = 1e-7 * max(1.0, sc)
    for n in range(1, N + 1):
        for seq in itertools.product(range(len(pts)), repeat=n):
            if only is not None and list(seq) != only:
                continue
            V = np.array([pts[i] for i in seq])
            res["evaluations"] += 1
            got = np.asarray(get_delta(V.copy(), W, al_impl))
            want = oracles.gap_values(W, al, V)
            case = {"mode": "delta", "unit": list(unit), "seq": list(seq)}
            if got.shape != (n, 1) or not np.allclose(got.reshape(-1), want, atol=tol, rtol=1e-6):
                res["violations"].append(core.violation(PROPERTY, {"kind": "gap", "cone_class": cones.cone_class(spec)}, case, want.tolist(), got.reshape(-1).tolist(),
                                                        f"get_delta({V.tolist()}) cone {cones.name(spec)} = {got.reshape(-1).tolist()}, definition gives {want.tolist()}"))
                return
            # zero exactly for designs not dominated in the cone's interior
            for i in range(n):
                interior = any(np.min(W @ (V[j] - V[i])) > 1e-9 * sc for j in range(n))
                clearly_not = all(np.min(W @ (V[j] - V[i])) < -1e-9 * sc or j == i for j in range(n))
                if clearly_not and got[i, 0] != 0:
                    res["violations"].append(core.violation(PROPERTY, {"kind": "gap-not-zero"}, case, 0.0, float(got[i, 0]), f"gap of a non-dominated design is {got[i, 0]} for {V.tolist()}"))
                    return
                if interior and not got[i, 0] > 0:
                    res["violations"].append(core.violation(PROPERTY, {"kind": "gap-zero-for-dominated"}, case, ">0", float(got[i, 0]), f"gap of an interior-dominated design is 0 for {V.tolist()}"))
                    return
            if n >= 2:
                res["nontrivial"] += 1
    res["outcomes"].append(f"delta:{cones.name(spec)}")
    res["samples"].append({"get_delta": {"cone": cones.name(spec), "N": N, "scale": sc}})


def run_cover(unit, res, only=None):
    _, spec, m, sc, seed = unit
    core.import_vopy()
    from vopy.utils import is_covered

    W = cones.W_of(spec)
    pts = pts_of(m, sc, seed)
    epss = sorted({e * sc * f for e in (0.0, 0.25, 0.5, 1.0, 2.0) for f in (1.0, 1.01)})
    idx = list(range(len(pts)))
    pairs = list(itertools.product(idx, idx))
    if m == 3:
        pairs = pairs[::2]
    for i, j in pairs:
        dist = oracles.cover_distance(W, pts[i], pts[j])
        tau = 1e-6 * max(1.0, sc, float(np.max(np.abs(pts[i]))))
        for e in epss:
            if only is not None and [i, j, e] != only:
                continue
            res["evaluations"] += 1
            verdict = 1 if dist < e - tau else (-1 if dist > e + tau else 0)
            if verdict == 0:
                res["boundary_skipped"] += 1
                continue
            got = bool(is_covered(pts[i], pts[j], e, W))
            res["nontrivial"] += 1
            core.bump(res, "cover_true" if verdict > 0 else "cover_false")
            if got != (verdict > 0):
                res["violations"].append(core.violation(
                    PROPERTY, {"kind": "eps-cover", "cone_class": cones.cone_class(spec)}, {"mode": "cover", "unit": list(unit), "ije": [i, j, e]}, verdict > 0, got,
                    f"is_covered(vi={pts[i].tolist()}, vj={pts[j].tolist()}, eps={e}) cone {cones.name(spec)} = {got}; least cone-vector norm is {dist:.6g}"))
                return
    res["outcomes"].append(f"cover:{cones.name(spec)}")
    res["samples"].append({"is_covered": {"cone": cones.name(spec), "pairs": len(pairs), "eps_grid": epss}})


class _DS:
    def __init__(self, Y):
        self.out_data = np.asarray(Y, float)


def f1_ref(W, al, V, true_idx, pred_idx, eps, cover):
    pred = list(pred_idx)
    gaps = oracles.gap_values(W, al, V)
    tp = sum(1 for i in pred if gaps[i] <= eps)
    fp = len(pred) - tp
    missed = sorted(set(true_idx) - set(pred))
    unc = 0
    undecided = False
    for i in missed:
        vs = [cover(i, j, eps) for j in pred]
        if any(v == 1 for v in vs):
            continue
        if all(v == -1 for v in vs):
            unc += 1
        else:
            undecided = True
    # gaps within tolerance of eps are undecided as well
    if any(abs(gaps[i] - eps) <= 1e-7 for i in pred):
        undecided = True
    den = 2 * tp + fp + unc
    return (2 * tp / den if den else float("nan")), undecided


def run_f1(unit, res, only=None):
    _, spec, m, part, nparts, seed, thorough = unit
    core.import_vopy()
    from vopy.utils.evaluate import calculate_epsilonF1_score

    order = cones.make_order(spec)
    W = order.ordering_cone.W
    al = oracles.cone_alpha_vec(W)
    sc = 1.0
    pts = pts_of(m, sc, seed)
    epss = [0.0, 0.26, 0.51, 1.01, 2.02]
    dist_cache = {}
    count = 0
    for N in (3, 4):
        seqs = list(itertools.combinations_with_replacement(range(len(pts)), N))
        if N == 4 and not thorough:
            seqs = seqs[::7]
        for seq in seqs:
            count += 1
            if count % nparts != part:
                continue
            V = np.array([pts[i] for i in seq])
            ds = _DS(V)
            true_idx = [int(x) for x in order.get_pareto_set(V.copy())]

            def cover(i, j, e):
                key = (seq[i], seq[j])
                if key not in dist_cache:
                    dist_cache[key] = oracles.cover_distance(W, V[i], V[j])
                d = dist_cache[key]
                return 1 if d < e - 1e-6 else (-1 if d > e + 1e-6 else 0)

            # the SAME dataset object is then scored under a second cone (and back): the score is a pure
            # function of (values, cone, eps, indices) - nothing may be remembered between calls
            if count % (4 * nparts) == part:
                order2 = cones.make_order(("theta", 45) if spec != ("theta", 45) else ("theta", 120))
                W2 = order2.ordering_cone.W
                al2 = oracles.cone_alpha_vec(W2)
                t2 = [int(x) for x in order2.get_pareto_set(V.copy())]
                for o_, W_, al_, t_ in ((order2, W2, al2, t2), (order, W, al, true_idx)):
                    def cover2(i, j, e, W_=W_):
                        dd = oracles.cover_distance(W_, V[i], V[j])
                        return 1 if dd < e - 1e-6 else (-1 if dd > e + 1e-6 else 0)
                    for e in (0.0, 0.51):
                        pred = list(range(N))[: max(1, N - 1)]
                        res["evaluations"] += 1
                        got = calculate_epsilonF1_score(ds, o_, np.array(t_), pred, e)
                        want, undecided = f1_ref(W_, al_, V, t_, pred, e, cover2)
                        if undecided or want != want:
                            continue
                        core.bump(res, "f1_same_dataset_other_cone")
                        if abs(got - want) > 1e-12:
                            res["violations"].append(core.violation(
                                PROPERTY, {"kind": "f1-depends-on-call-history"}, {"mode": "f1", "unit": list(unit), "seq": list(seq), "pred": pred, "eps": e}, want, float(got),
                                f"eps-F1 of values {V.tolist()} pred={pred} eps={e} is {got} when the same dataset object was scored under another cone before; the definition gives {want}"))
                            return
            subsets = [list(s) for r in range(0, N + 1) for s in itertools.combinations(range(N), r)]
            perms = [list(p) for p in itertools.permutations(range(N), N)][:6] + [list(p) for p in itertools.permutations(true_idx)]
            prev = {}
            for pred in subsets + perms:
                if only is not None and [list(seq), pred] != only:
                    continue
                last = None
                for e in epss:
                    res["evaluations"] += 1
                    try:
                        got = calculate_epsilonF1_score(ds, order, np.array(true_idx), list(pred), e)
                    except Exception as ex:
                        if len(pred) == 0:
                            break  # empty prediction: score undefined; not part of the property
                        res["violations"].append(core.violation(PROPERTY, {"kind": "f1-raised"}, {"mode": "f1", "unit": list(unit), "seq": list(seq), "pred": pred}, "score", repr(ex)[:120], f"F1 raised {ex!r}"))
                        return
                    want, undecided = f1_ref(W, al, V, true_idx, pred, e, cover)
                    case = {"mode": "f1", "unit": list(unit), "seq": list(seq), "pred": pred, "eps": e}
                    if undecided or want != want:
                        res["boundary_skipped"] += 1
                        last = None
                        continue
                    res["nontrivial"] += 1
                    if not (abs(got - want) <= 1e-12 and -1e-12 <= got <= 1 + 1e-12):
                        res["violations"].append(core.violation(PROPERTY, {"kind": "f1-value", "cone_class": cones.cone_class(spec)}, case, want, float(got),
                                                                f"eps-F1 for values {V.tolist()} true={true_idx} pred={pred} eps={e} cone {cones.name(spec)} = {got}, definition gives {want}"))
                        return
                    if sorted(pred) == sorted(true_idx) and abs(got - 1.0) > 1e-12:
                        res["violations"].append(core.violation(PROPERTY, {"kind": "f1-not-one-for-truth"}, case, 1.0, float(got), f"F1 of the true Pareto set is {got}"))
                        return
                    if last is not None and got < last - 1e-12:
                        res["violations"].append(core.violation(PROPERTY, {"kind": "f1-decreases-with-eps"}, case, f">={last}", float(got), f"F1 decreased from {last} to {got} as eps grew to {e} (values {V.tolist()} pred {pred})"))
                        return
                    last = got
                    k = (tuple(sorted(pred)), e)
                    if k in prev and abs(prev[k] - got) > 1e-12:
                        res["violations"].append(core.violation(PROPERTY, {"kind": "f1-order-dependent"}, case, prev[k], float(got), f"F1 depends on the order of predicted indices: {pred}"))
                        return
                    prev[k] = got
    res["outcomes"].append(f"f1:{cones.name(spec)}:{part}")
    res["samples"].append({"epsilon_F1": {"cone": cones.name(spec), "part": part, "eps_grid": epss}})


def hv2d(P, ref):
    """2-D hyper-volume (maximisation) of point set P w.r.t. reference point ref, by a sweep"""
    P = [p for p in P if p[0] > ref[0] and p[1] > ref[1]]
    P = sorted(P, key=lambda p: (-p[0], -p[1]))
    hv, ymax = 0.0, ref[1]
    for x, y in P:
        if y > ymax:
            hv += (x - ref[0]) * (y - ymax)
            ymax = y
    return hv


def run_hv(unit, res, only=None):
    _, spec, seed, thorough = unit
    core.import_vopy()
    import vopy.utils.evaluate as E
    from vopy.maximization_problem import ContinuousProblem

    order = cones.make_order(spec)
    W = order.ordering_cone.W
    X = np.array([[0.0, 0.0], [0.5, 0.0], [1.0, 0.0], [0.0, 1.0], [0.5, 1.0], [1.0, 1.0]])
    F = np.array([[0.0, 2.0], [1.0, 1.5], [2.0, 0.0], [0.5, 0.5], [1.5, 1.0], [-1.0, -1.0]])
    n = 6 if thorough else 5
    X, F = X[:n], F[:n]

    class Tab(ContinuousProblem):
        in_dim = 2
        out_dim = 2

        def evaluate_true(self, x):
            return np.array([F[int(np.argmin(np.sum((X - r) ** 2, axis=1)))] for r in np.atleast_2d(x)])

    prob = Tab(0.01)
    old = E.generate_sobol_samples
    E.generate_sobol_samples = lambda dim, k: X.copy()
    try:
        fW = F @ W.T
        ref = fW.min(axis=0)
        true_p = [int(i) for i in order.get_pareto_set(F.copy())]
        hv_true = hv2d([tuple(fW[i]) for i in true_p], ref)
        alphabet = (-1.0, 0.5, 2.0)
        for assign in itertools.product(range(3), repeat=n):
            if only is not None and list(assign) != only:
                continue
            Yp = np.array([[alphabet[a], alphabet[(a + i) % 3]] for i, a in enumerate(assign)])

            class M:
                def predict(self, x):
                    return Yp.copy(), np.tile(np.eye(2), (len(Yp), 1, 1))

            pred_p = [int(i) for i in order.get_pareto_set(Yp.copy())]
            hv_pred = hv2d([tuple(fW[i]) for i in pred_p], ref)
            res["evaluations"] += 1
            case = {"mode": "hv", "unit": list(unit), "assign": list(assign)}
            if hv_true < hv_pred - 1e-12:
                res["violations"].append(core.violation(PROPERTY, {"kind": "hv-oracle"}, case, "hv_true>=hv_pred", [hv_true, hv_pred], "oracle: true front hyper-volume smaller than a subset's"))
                return
            diff = hv_true - hv_pred
            try:
                got = E.calculate_hypervolume_discrepancy_for_model(order, prob, M())
                raised = False
            except AssertionError:
                raised = True
            if abs(diff - 1e-4) < 1e-9:
                res["boundary_skipped"] += 1
                continue
            res["nontrivial"] += 1
            if diff <= 1e-4:
                core.bump(res, "hv_equal")
                if not raised:
                    res["violations"].append(core.violation(PROPERTY, {"kind": "hv-no-raise"}, case, "AssertionError", float(got), f"hyper-volumes equal (diff {diff}) but {got} returned"))
                    return
            else:
                core.bump(res, "hv_differs")
                if raised or abs(got - np.log(diff)) > 1e-9:
                    res["violations"].append(core.violation(PROPERTY, {"kind": "hv-value"}, case, float(np.log(diff)), "raised" if raised else float(got),
                                                            f"log hyper-volume discrepancy for predicted values {Yp.tolist()}: got {'AssertionError' if raised else got}, expected log({diff})"))
                    return
    finally:
        E.generate_sobol_samples = old
    res["outcomes"].append(f"hv:{cones.name(spec)}")
    res["samples"].append({"hypervolume": {"cone": cones.name(spec), "points": n, "assignments": 3 ** n}})


FN = {"delta": run_delta, "cover": run_cover, "f1": run_f1, "hv": run_hv}


def run_unit(unit):
    res = core.new_result()
    FN[unit[0]](unit, res)
    return res


def _fix(u):
    u = list(u)
    if isinstance(u[1], list):
        u[1] = tuple(tuple(tuple(r) for r in x) if isinstance(x, list) else x for x in u[1])
    return tuple(u)


def replay_case(case):
    res = core.new_result()
    u = _fix(case["unit"])
    if case["mode"] == "delta":
        run_delta(u, res, only=case["seq"])
    elif case["mode"] == "cover":
        run_cover(u, res, only=case["ije"])
    elif case["mode"] == "f1":
        run_f1(u, res, only=[case["seq"], case["pred"]])
    else:
        run_hv(u, res, only=case["assign"])
    return res["violations"]


def finish(ctx, merged):
    c = merged["counters"]
    missing = [k for k in ("cover_true", "cover_false", "hv_equal", "hv_differs") if not c.get(k)]
    if missing:
        return {"harness_error": f"vacuous: {missing}"}
    return {}
