"""C14 - displayed confidence regions are exactly the model's prediction scaled.

opseq engine over design_space.update(model, scale, indices): all update sequences up to depth D over
{model} x {scale form} x {EVERY ordered index subset of N=4 designs, and None}, both confidence types
and both design-space classes, all model classes (stub A/B, Independent GP, Correlated GP, model-list
GP, empirical mean/var).  Oracle after every operation: model.predict on the FULL design matrix,
scaled, for touched designs; untouched designs bit-identical.  Plus all length<=3 sequences of lattice
rectangles through RectangularConfidenceRegion with intersect_iteratively=True.
"""
import copy
import itertools

import numpy as np

from vmc import core, lattice, seams

PROPERTY = "C14"
LEVEL = "model_checking"
RULE = ("depth-1: every (model in 6 classes) x (scale form scalar / per-objective / per-design matrix) x (every ordered subset of 4 designs + None) "
        "update on FixedPoints(rect, ellipsoid) and AdaptivelyDiscretized design spaces; depth-2 (thorough 3): all sequences over stub models x "
        "{scalar, matrix} x all index forms; iterative-intersection: every sequence of <=3 lattice rectangles; state = all displayed regions; "
        "non-trivial = update touching >= 1 design whose region is compared")
ASSUMPTIONS = [
    "the oracle takes model.predict on the full design matrix as the model's prediction (so the single-point path is tested against the batched path); tolerance 1e-8 relative for real GP models, 1e-12 for stubs",
    "touching rectangles under iterative intersection: either verdict accepted",
]

N = 4


def index_forms():
    out = [None]
    for r in range(1, N + 1):
        for sub in itertools.permutations(range(N), r):
            out.append(list(sub))
    return out


def make_models(m, which):
    """returns dict name -> (model, needs_index_col)"""
    from vopy.models import CorrelatedExactGPyTorchModel, EmpiricalMeanVarModel, GPyTorchModelListExactModel, IndependentExactGPyTorchModel

    X = seams.default_inputs(N, 1)
    out = {}
    rng_vals = np.array([[0.5, -1.0, 0.25], [1.5, 0.5, -0.75], [-0.5, 2.0, 1.0], [0.0, 1.0, 0.5]])[:, :m]
    if "stubA" in which:
        a = seams.StubModel(X, m)
        a.mean = rng_vals.copy()
        a.cov = np.array([np.diag([0.25 * (i + 1), 1.0, 0.5][:m]) for i in range(N)])
        out["stubA"] = a
    if "stubB" in which:
        b = seams.StubModel(X, m)
        b.mean = -rng_vals[::-1].copy() + 3.0
        c = np.array([[1.0, 0.6, 0.0], [0.6, 2.0, 0.3], [0.0, 0.3, 0.5]])[:m, :m]
        b.cov = np.array([c * (0.5 + 0.25 * i) for i in range(N)])
        out["stubB"] = b
    Xtr = np.array([[0.1], [0.45], [0.8]])
    Ytr = np.array([[0.3, -0.2, 0.1], [1.0, 0.4, -0.5], [-0.6, 0.9, 0.7]])[:, :m]
    if "ind" in which:
        g = IndependentExactGPyTorchModel(1, m, 0.1)
        g.add_sample(Xtr, Ytr)
        g.update()
        out["ind"] = g
    if "cor" in which:
        g = CorrelatedExactGPyTorchModel(1, m, 0.1)
        g.add_sample(Xtr, Ytr)
        g.update()
        out["cor"] = g
    if "list" in which:
        g = GPyTorchModelListExactModel(1, m, 0.1)
        for k in range(m):
            g.add_sample(Xtr[: 3 - (k % 2)], Ytr[: 3 - (k % 2), k], k)
        g.update()
        out["list"] = g
    if "emp" in which:
        e = EmpiricalMeanVarModel(1, m, 0.25, N)
        e.add_sample([0, 1, 1, 2, 3, 3], np.array([rng_vals[0], rng_vals[1], rng_vals[2], rng_vals[3], rng_vals[0] * 2, rng_vals[1] - 1]))
        e.update()
        out["emp"] = e
    return out


def scale_of(form, n_idx, m):
    if form == "scalar":
        return np.array(1.5)
    if form == "vector":
        return np.array([0.5, 2.0, 1.25][:m])
    return np.array([[0.5 + 0.25 * r + 0.5 * k for k in range(m)] for r in range(n_idx)])


def snapshot(ds):
    from vopy.confidence_region import RectangularConfidenceRegion

    out = []
    for r in ds.confidence_regions:
        if isinstance(r, RectangularConfidenceRegion):
            out.append(("rect", np.array(r.lower, float).copy(), np.array(r.upper, float).copy()))
        else:
            out.append(("ell", np.array(r.center, float).copy(), np.array(r.sigma, float).copy(), np.array(r.alpha, float).copy()))
    return out


def same(a, b):
    return a[0] == b[0] and all(np.array_equal(x, y) for x, y in zip(a[1:], b[1:]))


def do_update(ds, model, mname, form, idx, m, conf, res, case):
    """perform one update on the real design space and compare; returns violation or None"""
    pts = ds.points
    NP = len(pts)
    n_idx = NP if idx is None else len(idx)
    scale = scale_of(form, n_idx, m)
    before = snapshot(ds)
    tol = 1e-12 if mname.startswith("stub") or mname == "emp" else 1e-8

    def bad(kind, want, got, msg, extra=None):
        key = {"kind": kind, "model": mname, "conf": conf}
        if extra:
            key.update(extra)
        return core.violation(PROPERTY, key, case, want, got,
                              f"{type(ds).__name__}({conf}) update(model={mname}, scale={form}, indices={idx}): {msg}")

    res["evaluations"] += 1
    res["transitions"] += 1
    try:
        ds.update(model, scale, idx)
    except ValueError as e:
        if conf == "hyperellipsoid" and form != "scalar":
            core.bump(res, "ellipsoid_vector_scale_rejected")
            after = snapshot(ds)
            # documented rejection; (regions updated before the failing one may have changed: not part of the property)
            return None
        return bad("update-raised", "regions updated", repr(e)[:160], f"raised {e!r}", {"n_idx": "1" if n_idx == 1 else ">1"})
    except Exception as e:
        return bad("update-raised", "regions updated", repr(e)[:160], f"raised {e!r}", {"n_idx": "1" if n_idx == 1 else ">1"})
    if conf == "hyperellipsoid" and form != "scalar":
        return bad("ellipsoid-vector-scale-accepted", "ValueError", "accepted", "a non-scalar scale was accepted for ellipsoids")
    after = snapshot(ds)
    mu, cov = model.predict(pts)  # full design matrix
    mu, cov = np.asarray(mu), np.asarray(cov)
    touched = list(range(NP)) if idx is None else list(idx)
    for pos, i in enumerate(touched):
        s = scale if scale.ndim < 2 else scale[pos]
        if conf == "hyperrectangle":
            hw = np.sqrt(np.diag(cov[i])) * s
            wl, wu = mu[i] - hw, mu[i] + hw
            gl, gu = after[i][1], after[i][2]
            sc = max(1.0, float(np.max(np.abs(mu[i]))))
            if gl.shape != wl.shape or not (np.allclose(gl, wl, rtol=tol, atol=tol * sc) and np.allclose(gu, wu, rtol=tol, atol=tol * sc)):
                return bad("rect-region", [wl.tolist(), wu.tolist()], [gl.tolist(), gu.tolist()],
                           f"design {i}: region [{np.round(gl, 6).tolist()},{np.round(gu, 6).tolist()}] != mean +- scale*std = [{np.round(wl, 6).tolist()},{np.round(wu, 6).tolist()}]",
                           {"n_idx": "1" if n_idx == 1 else ">1"})
            if not np.all(gl <= gu):
                return bad("lower-gt-upper", "lower<=upper", [gl.tolist(), gu.tolist()], f"design {i}: lower > upper")
        else:
            gc, gs, ga = after[i][1], after[i][2], after[i][3]
            if gc.shape != mu[i].shape or not (np.allclose(gc, mu[i], rtol=tol, atol=tol) and np.allclose(gs, cov[i], rtol=tol, atol=tol) and np.allclose(ga, s, rtol=0, atol=0)):
                return bad("ell-region", [mu[i].tolist(), cov[i].tolist(), float(np.asarray(s))], [gc.tolist(), gs.tolist(), np.asarray(ga).tolist()],
                           f"design {i}: ellipsoid (centre {gc.tolist()}, radius {ga}) != (predictive mean {mu[i].tolist()}, covariance, scale {s})",
                           {"n_idx": "1" if n_idx == 1 else ">1"})
    for i in range(NP):
        if i not in touched and not same(before[i], after[i]):
            return bad("untouched-changed", "unchanged", "changed", f"design {i} was not in the index list but its region changed")
    res["nontrivial"] += 1
    return None


def build_space(space, conf, m):
    from vopy.design_space import AdaptivelyDiscretizedDesignSpace, FixedPointsDesignSpace

    X = seams.default_inputs(N, 1)
    if space == "fixed":
        return FixedPointsDesignSpace(X.copy(), m, confidence_type=conf), False
    ds = AdaptivelyDiscretizedDesignSpace(1, m, delta=0.1, max_depth=3)
    ds.refine_design(0)
    ds.refine_design(1)  # points: root, 2 children, 2 grandchildren = 5 points; use first 4 via index forms
    return ds, False


def run_depth1(unit, res, only=None):
    _, space, conf, m, mname, thorough = unit
    core.import_vopy()
    forms = ["scalar", "vector", "matrix"]
    idxs = index_forms()
    models = make_models(m, [mname])
    model = models[mname]
    nv = 0
    for form in forms:
        for idx in idxs:
            if only is not None and [form, idx] != only:
                continue
            ds, _ = build_space(space, conf, m)
            if mname == "emp":
                ds.points = np.hstack([ds.points[:, :1], np.arange(len(ds.points))[:, None].astype(float)])
            if space == "adaptive":
                # the stub / GP models are asked about the adaptive space's own points
                if hasattr(model, "set_points"):
                    model.set_points(ds.points)
                    model.mean = np.array([[0.5 * i, 1.0 - 0.25 * i, 0.1 * i][:m] for i in range(len(ds.points))])
                    model.cov = np.array([np.diag([0.25 * (i + 1), 1.0, 0.5][:m]) for i in range(len(ds.points))])
            case = {"mode": "d1", "unit": list(unit), "form": form, "idx": idx}
            v = do_update(ds, model, mname, form, idx, m, conf, res, case)
            if v is not None:
                res["violations"].append(v)
                nv += 1
                if nv >= 3:
                    return
    res["states"] += len(forms) * len(idxs)
    res["outcomes"].append(f"{space}:{conf}:{m}:{mname}")
    res["samples"].append({"space": space, "conf": conf, "m": m, "model": mname, "index_forms": len(idxs), "scale_forms": forms})


def run_depth2(unit, res, only=None):
    _, conf, m, first_model, first_form, depth = unit
    core.import_vopy()
    idxs = index_forms()
    models = make_models(m, ["stubA", "stubB"])
    forms = ["scalar", "matrix"] if conf == "hyperrectangle" else ["scalar"]
    alphabet = [(mn, f, ix) for mn in ("stubA", "stubB") for f in forms for ix in range(len(idxs))]
    # thin the index forms for positions >= 2 to keep the product finite but structured
    later = [a for a in alphabet if a[2] % (1 if depth <= 2 else 7) == 0]
    nv = 0
    for i0 in range(len(idxs)):
        seq0 = (first_model, first_form, i0)
        tails = itertools.product(later, repeat=depth - 1) if depth <= 2 else itertools.product(alphabet[::5], later[::3])
        for tail in tails:
            seq = (seq0,) + tuple(tail)
            if only is not None and [list(s) for s in seq] != only:
                continue
            ds, _ = build_space("fixed", conf, m)
            for k, (mn, f, ix) in enumerate(seq):
                case = {"mode": "d2", "unit": list(unit), "seq": [list(s) for s in seq]}
                v = do_update(ds, models[mn], mn, f, idxs[ix], m, conf, res, case)
                if v is not None:
                    res["violations"].append(v)
                    nv += 1
                    break
            if nv >= 3:
                return
    res["states"] += len(idxs) * len(later)
    res["samples"].append({"depth": depth, "conf": conf, "first": [first_model, first_form], "alphabet": len(alphabet)})
    res["outcomes"].append(f"d2:{conf}:{first_model}:{first_form}")


def run_intersect(unit, res, only=None):
    _, n_lat, depth, sc = unit
    core.import_vopy()
    from vopy.confidence_region import RectangularConfidenceRegion

    rects = lattice.rectangles(2, n_lat)
    if n_lat == 2:
        rects = lattice.rectangles(2, n_lat, degenerate=True)  # zero-width boxes (zero predictive variance / zero scale) included
    nv = 0
    for L in range(1, depth + 1):
        for seq in itertools.product(range(len(rects)), repeat=L):
            if only is not None and list(seq) != only:
                continue
            r = RectangularConfidenceRegion(2, intersect_iteratively=True)
            cur = (np.array([-1e12, -1e12]), np.array([1e12, 1e12]))
            ambiguous = False
            res["evaluations"] += 1
            for k in seq:
                lo, hi = rects[k][0] * sc, rects[k][1] * sc
                c, hw = (lo + hi) / 2, (hi - lo) / 2
                r.update(c, np.diag(hw ** 2), np.array(1.0))
                res["transitions"] += 1
                # a zero-width box lying strictly inside the other one along that axis still intersects it
                inter_lo, inter_hi = np.maximum(cur[0], lo), np.minimum(cur[1], hi)
                strictly = bool(np.all((inter_lo < inter_hi) | ((inter_lo == inter_hi) & (((lo == hi) & (cur[0] < lo) & (hi < cur[1])) | ((cur[0] == cur[1]) & (lo < cur[0]) & (cur[1] < hi))))))
                touching = np.all(cur[0] <= hi) and np.all(lo <= cur[1]) and not strictly
                if touching:
                    ambiguous = True
                    break
                cur = (np.maximum(cur[0], lo), np.minimum(cur[1], hi)) if strictly else (lo, hi)
            if ambiguous:
                res["boundary_skipped"] += 1
                continue
            res["nontrivial"] += 1
            if not (np.allclose(r.lower, cur[0], atol=1e-12 * sc) and np.allclose(r.upper, cur[1], atol=1e-12 * sc)) or not np.all(r.lower <= r.upper):
                res["violations"].append(core.violation(
                    PROPERTY, {"kind": "iterative-intersection"}, {"mode": "isect", "unit": list(unit), "seq": list(seq)}, [cur[0].tolist(), cur[1].tolist()],
                    [np.asarray(r.lower).tolist(), np.asarray(r.upper).tolist()],
                    f"iterative intersection of {[ [rects[k][0].tolist(), rects[k][1].tolist()] for k in seq]} gave [{np.asarray(r.lower).tolist()},{np.asarray(r.upper).tolist()}], expected [{cur[0].tolist()},{cur[1].tolist()}]"))
                nv += 1
                if nv >= 3:
                    return
    res["states"] += len(rects) ** depth
    res["samples"].append({"iterative_intersection": {"lattice_rectangles": len(rects), "depth": depth, "scale": sc}})
    res["outcomes"].append(f"isect:{sc}")


def run_big(unit, res, only=None):
    _, conf, n_pts = unit
    core.import_vopy()
    from vopy.design_space import FixedPointsDesignSpace

    m = 2
    X = np.linspace(0.0, 1.0, n_pts).reshape(-1, 1)
    stub = seams.StubModel(X, m)
    stub.mean = np.stack([np.arange(n_pts, dtype=float), -2.0 * np.arange(n_pts, dtype=float)], axis=1)  # identifies the design
    stub.cov = np.array([np.diag([1.0 + 0.001 * i, 0.5 + 0.002 * i]) for i in range(n_pts)])
    subsets = {"all": None, "tail": list(range(n_pts - 550, n_pts)), "reversed": list(range(n_pts - 1, -1, -1)), "every-other": list(range(0, n_pts, 2))}
    for name, idx in subsets.items():
        for form in (("scalar", "matrix") if conf == "hyperrectangle" else ("scalar",)):
            ds = FixedPointsDesignSpace(X.copy(), m, confidence_type=conf)
            touched = list(range(n_pts)) if idx is None else idx
            scale = np.array(1.5) if form == "scalar" else np.array([[0.5 + 0.001 * r, 1.0 + 0.002 * r] for r in range(len(touched))])
            res["evaluations"] += 1
            res["transitions"] += 1
            ds.update(stub, scale, idx)
            for pos, i in enumerate(touched):
                r = ds.confidence_regions[i]
                sc = scale if scale.ndim < 2 else scale[pos]
                if conf == "hyperrectangle":
                    hw = np.sqrt(np.diag(stub.cov[i])) * sc
                    ok = np.allclose(r.lower, stub.mean[i] - hw, atol=1e-9) and np.allclose(r.upper, stub.mean[i] + hw, atol=1e-9)
                else:
                    ok = np.allclose(r.center, stub.mean[i]) and np.allclose(r.sigma, stub.cov[i]) and float(np.asarray(r.alpha)) == 1.5
                if not ok:
                    got = [np.asarray(r.lower).tolist(), np.asarray(r.upper).tolist()] if conf == "hyperrectangle" else [np.asarray(r.center).tolist()]
                    res["violations"].append(core.violation(
                        PROPERTY, {"kind": "large-space-misaligned", "conf": conf}, {"mode": "big", "unit": list(unit)}, stub.mean[i].tolist(), got,
                        f"FixedPointsDesignSpace({conf}) with {n_pts} designs, update(indices={name}, scale={form}): design {i} (position {pos}) displays {got}, its own prediction is centred at {stub.mean[i].tolist()}"))
                    return
            res["nontrivial"] += 1
    core.bump(res, "large_space_updates")
    res["outcomes"].append(f"big:{conf}:{n_pts}")
    res["samples"].append({"large_design_space": {"conf": conf, "designs": n_pts, "index_forms": list(subsets)}})


def units(ctx):
    us = []
    for conf in ("hyperrectangle", "hyperellipsoid"):
        us.append(("big", conf, 1300 if ctx.thorough else 600))
    for space in ("fixed", "adaptive"):
        confs = ("hyperrectangle", "hyperellipsoid") if space == "fixed" else ("hyperrectangle",)
        for conf in confs:
            for m in (2, 3):
                names = ["stubA", "stubB", "ind", "cor", "list", "emp"] if space == "fixed" else ["stubA", "ind", "cor"]
                for mname in names:
                    if m == 3 and not ctx.thorough and mname in ("stubB", "list", "emp"):
                        continue
                    us.append(("d1", space, conf, m, mname, ctx.thorough))
    depth = 3 if ctx.thorough else 2
    for conf in ("hyperrectangle", "hyperellipsoid"):
        for fm in ("stubA", "stubB"):
            for ff in (("scalar", "matrix") if conf == "hyperrectangle" else ("scalar",)):
                us.append(("d2", conf, 2, fm, ff, depth))
    for sc in lattice.scales_for(ctx.thorough, ctx.seed, 2):
        us.append(("isect", 2, 3, sc))
        us.append(("isect", 3, 3 if ctx.thorough else 2, sc))  # n=3: pairs strictly disjoint along one axis only
    return us


def run_unit(unit):
    res = core.new_result()
    {"d1": run_depth1, "d2": run_depth2, "isect": run_intersect, "big": run_big}[unit[0]](unit, res)
    return res


def replay_case(case):
    res = core.new_result()
    u = tuple(case["unit"])
    if case["mode"] == "big":
        run_big(u, res)
    elif case["mode"] == "d1":
        run_depth1(u, res, only=[case["form"], case["idx"]])
    elif case["mode"] == "d2":
        run_depth2(u, res, only=case["seq"])
    else:
        run_intersect(u, res, only=case["seq"])
    return res["violations"]


def finish(ctx, merged):
    if merged["nontrivial"] < 1000 or not merged["counters"].get("ellipsoid_vector_scale_rejected"):
        return {"harness_error": "vacuous"}
    return {}
