"""C09 - see checks/regions.py (shared enumerator for the region predicates)."""
from checks import regions
from vmc import core

PROPERTY = "C09"
LEVEL = "exploration"
RULE = "all ordered pairs (R1 from a shape alphabet, R2 every lattice rectangle with corners in {0..3}^2 / {0..2}^3; thorough: all x all on {0..4}^2) x scale ladder x anisotropic stretches x cone family x slack forms; ellipsoid pairs from shape alphabet x 5x5 centre lattice x 2 radii; non-trivial = oracle verdict decided with margin (or decided exactly for integer W)"
ASSUMPTIONS = [
    "verdicts within tau = 1e-6*max(1,|data|) of the decision boundary are not compared (counted as boundary_skipped)",
    "oracle float evaluation error (<=1e-13*scale) is far below tau",
]


def units(ctx):
    return regions.units(ctx, PROPERTY)


def run_unit(unit):
    return regions.run_unit(unit)


def replay_case(case):
    return regions.replay_case(case)


def finish(ctx, merged):
    c = merged["counters"]
    need = {"C09": ["verdict_true", "verdict_false", "ell_true", "ell_false"], "C10": ["verdict_true", "verdict_false", "ell_true", "ell_false"],
            "C11": ["pess_holds", "pess_fails"]}[PROPERTY]
    missing = [k for k in need if not c.get(k)]
    if missing:
        return {"harness_error": f"vacuous: verdict classes empty: {missing}"}
    return {}
