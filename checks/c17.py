"""C17 - cone constants alpha, u*, d1, beta are the optima they are defined as.

Enumerates a finite cone family (theta sweep, ice-cream K x half-angle, named 3-D cones, orthants,
all integer-row cones of bounded entries in 2-4 D, unit-normalised) and compares the real
OrderingCone.alpha / VOGP.compute_u_star / VOGP_AD.compute_u_star / ConeTheta2D.beta with optima
obtained by exhaustive active-set (KKT) enumeration, which yields primal and dual certificates.
"""
import itertools

import numpy as np

from vmc import cones, core, lattice, oracles

PROPERTY = "C17"
LEVEL = "exploration"
RULE = (
    "cone family: theta grid over (0,180) (seed shifts the grid by a fraction of a degree), ice-cream "
    "K=3..12 x half-angle grid, 3 named 3-D cones, orthants m=2..4, all pointed integer-row cones "
    "(2-D entries {-1,0,1,2}; 3-D entries {-1,0,1} K=3 (+K=4 thorough); 4-D entries {0,1}) normalised "
    "to unit rows; non-trivial = cone with a KKT-certified oracle value (primal == dual within 1e-9)"
)
ASSUMPTIONS = [
    "tolerances: alpha 1e-6, u* 1e-5 (SLSQP), d1 1e-6 relative",
    "random cones replaced by the exhaustive integer-row family (DESIGN 5.4)",
]


def _int_cones_3d(thorough):
    rows = [r for r in itertools.product((-1, 0, 1), repeat=3) if r != (0, 0, 0)]
    out = []
    for tri in itertools.combinations(rows, 3):
        M = np.array(tri, float)
        if abs(np.linalg.det(M)) < 1e-9:
            continue
        out.append(("W", tri, "unit"))
    if not thorough:
        out = out[::40]
    k4 = []
    base = out[:: (7 if thorough else 5)]
    for c in base:
        for r in rows[:: (3 if thorough else 9)]:
            if r in c[1]:
                continue
            W = np.array(c[1] + (r,), float)
            # keep only cones with non-empty interior: exists x, Wx >= 1
            try:
                oracles.min_norm_point(W / np.linalg.norm(W, axis=1, keepdims=True), np.ones(4))
            except ArithmeticError:
                continue
            k4.append(("W", c[1] + (r,), "unit"))
    return out + k4[:: (1 if thorough else 3)]


def _int_cones_4d():
    rows = [r for r in itertools.product((0, 1), repeat=4) if r != (0, 0, 0, 0)]
    out = []
    for q in itertools.combinations(rows, 4):
        if abs(np.linalg.det(np.array(q, float))) < 1e-9:
            continue
        out.append(("W", q, "unit"))
    return out


def all_cones(ctx):
    specs = []
    step = 1  # the full 1-degree grid in both tiers (cheap)
    frac = (ctx.seed % 10) / 10.0
    specs += [("theta", t + frac) for t in range(1, 179, step)]
    specs += [("theta", t) for t in (45, 89.5, 90, 90.5, 135)]
    hs = range(10, 85, 5)
    specs += [("ice", h, k) for h in hs for k in range(3, 13)]
    specs += [("c3d", k) for k in ("acute", "right", "obtuse")]
    specs += [("comp", m) for m in (2, 3, 4)]
    specs += [("W", c[1], "unit") for c in cones.integer_cones_2d()]
    specs += [("theta3", t) for t in (30, 60, 90, 120, 150)]
    specs += [("W", ((0, 1, -1), (1, -1, -1), (1, 0, 1)), "unit")]  # the F12 witness stays in every tier
    specs += _int_cones_3d(ctx.thorough)
    c4 = _int_cones_4d()
    specs += c4 if ctx.thorough else c4[::12]
    return specs


def units(ctx):
    return [("cones", tuple(ch)) for ch in lattice.chunks(all_cones(ctx), ctx.nproc * 3)]


def check_cone(spec, res):
    from vopy.algorithms.vogp import VOGP
    from vopy.algorithms.vogp_ad import VOGP_AD
    from vopy.ordering_cone import ConeTheta2D

    order = cones.make_order(spec)
    cone = order.ordering_cone
    W = cone.W
    K, m = W.shape
    case = {"spec": spec}
    res["evaluations"] += 1
    out = []

    def bad(kind, want, got, msg):
        out.append(core.violation(PROPERTY, {"kind": kind, "cone_kind": spec[0]}, case, want, got, f"{cones.name(spec)}: {msg}"))

    if not np.allclose(np.linalg.norm(W, axis=1), 1.0, atol=1e-9):
        return out  # property speaks about unit facet normals only
    # ---- alpha
    al = []
    certified = True
    for n in range(K):
        a, x, lam = oracles.cone_alpha(W, n)
        primal = float(W[n] @ x)
        dual = float(np.linalg.norm(W[n] + W.T @ lam))
        if abs(primal - dual) > 1e-9 or np.min(W @ x) < -1e-9 or abs(np.linalg.norm(x) - 1) > 1e-9 or np.min(lam) < -1e-9:
            certified = False
        al.append(a)
    al = np.array(al)
    got = np.asarray(cone.alpha, float).reshape(-1)
    if not certified:
        res["boundary_skipped"] += 1
        return out
    res["nontrivial"] += 1
    if got.shape != al.shape or not np.allclose(got, al, atol=1e-6):
        bad("alpha", al.tolist(), got.tolist(), f"OrderingCone.alpha {got.tolist()} != certified optimum {al.tolist()}")
    # ---- u*, d1
    us, d1, mu = oracles.u_star(W)
    z = us * d1
    if np.min(W @ z) < 1 - 1e-9 or np.min(mu) < -1e-9 or np.linalg.norm(W.T @ mu - z) > 1e-8:
        res["boundary_skipped"] += 1
    else:
        for cls in (VOGP, VOGP_AD):
            obj = object.__new__(cls)
            obj.order = order
            obj.m = m
            res["evaluations"] += 1
            u_got, d_got = cls.compute_u_star(obj)
            u_got = np.asarray(u_got, float)
            if u_got.shape != (m,) or not np.allclose(u_got, us, atol=1e-5):
                bad(cls.__name__ + "-ustar", us.tolist(), u_got.tolist(), f"{cls.__name__}.compute_u_star direction {u_got.tolist()} != {us.tolist()}")
            elif abs(float(d_got) - d1) > 1e-6 * max(1.0, d1):
                bad(cls.__name__ + "-d1", d1, float(d_got), f"{cls.__name__}.compute_u_star d1 {d_got} != {d1}")
            elif np.min(W @ u_got) < -1e-9:
                bad(cls.__name__ + "-ustar-outside", ">=0", float(np.min(W @ u_got)), "u* not inside the cone")
            elif abs(np.linalg.norm(u_got) - 1) > 1e-9:
                bad(cls.__name__ + "-ustar-norm", 1.0, float(np.linalg.norm(u_got)), "u* not unit")
    # ---- beta
    if isinstance(cone, ConeTheta2D):
        th = cone.cone_degree
        want = 1 / np.sin(np.radians(th)) if th < 90 else 1.0
        res["evaluations"] += 1
        b = float(cone.beta)
        if abs(b - want) > 1e-9 * want:
            bad("beta-formula", want, b, f"beta {b} != {want}")
        if abs(b - 1 / al.max()) > 1e-6 * b or abs(al[0] - al[1]) > 1e-9:
            bad("beta-vs-alpha", 1 / al.max(), b, f"beta {b} is not the reciprocal of alpha {al.tolist()}")
    res["outcomes"].append(f"{np.round(al, 3).tolist()}")
    return out


def run_unit(unit):
    core.import_vopy()
    res = core.new_result()
    for spec in unit[1]:
        vs = check_cone(spec, res)
        res["violations"].extend(vs)
    if unit[1]:
        s = unit[1][0]
        W = cones.W_of(s)
        res["samples"].append({"cone": cones.name(s), "alpha_oracle": oracles.cone_alpha_vec(W).tolist(), "u_star_oracle": oracles.u_star(W)[0].tolist()})
    return res


def _spec(s):
    return tuple(tuple(tuple(r) for r in x) if isinstance(x, list) else x for x in s)


def replay_case(case):
    core.import_vopy()
    return check_cone(_spec(case["spec"]), core.new_result())


def finish(ctx, merged):
    if merged["nontrivial"] < 100:
        return {"harness_error": "vacuous: too few certified cones"}
    return {}
