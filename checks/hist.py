"""History independence of the per-round decisions (C02 / C03): "in every round ... exactly when the confidence
regions CURRENTLY DISPLAYED certify it".

Every other flavour re-creates the algorithm object per transition (template copy + injected S, P, U, round, frozen
regions), which is what makes states hashable - and blind to anything else an instance may carry from round to round
(memo tables, cached witnesses, latches).  Here every event path up to the depth bound is executed twice on the real
code: on ONE live instance that runs the whole history, and round by round on fresh injected instances.  Both see the
same displayed regions, the same S, P, U and round number (bit-identical floats, so no tolerance is involved); the
sets that leave S without entering P (C02) and that enter P (C03) must agree.  The fresh-instance decisions are the
ones the one-step enumerations compare with the reference transition.
"""
import numpy as np

from checks import reach
from vmc import cones, core, stepmc


def _explorer(which, alg_name, spec, m, K, mu, depth, res):
    contraction = None
    if alg_name in ("PaVeBa", "Auer"):
        probe = stepmc.build_template(alg_name, spec, K, m, reach.eps_of(), contraction=1.0, noise_var=1.0, delta=0.5)
        probe.round = 1
        w1 = float(probe.compute_radius()) if alg_name == "PaVeBa" else float(np.asarray(probe.compute_beta()).reshape(-1)[0])
        contraction = w1 / (2 * reach.U_UNIT)
    return reach.Explorer("C01", alg_name, spec, m, K, mu, depth, depth, res, contraction=contraction)


def _events(ex, st, K, full):
    act = sorted((set(st["S"]) | set(st["U"])) if ex.fam == "paveba" else (set(st["S"]) | set(st["P"])) if ex.fam == "vogp" else set(st["S"]))
    evs = ex.events(dict(st, budget=1), act)
    if full == 1:
        return evs
    if full == 2:
        # tiny menu (depth-3 units): default, three single-design items per design, the first two pair items
        pk = ex.pair_items[:2]
        single = set(pk) | {k for k, it in enumerate(ex.items) if ex.kind == "rect" and max(it[0]) < 0.5 and not any(it[1])} | {1}
        return [e for e in evs if len(e) == 0 or (len(e) == 1 and next(iter(e.values())) in single) or (len(e) == 2 and all(v in pk for v in e.values()))]
    # reduced menu: single-design events over every other item (the collapsed posteriors always), pair events over
    # three of the pair items
    n = len(ex.items)
    single = set(range(1, n, 2)) | {k for k, it in enumerate(ex.items) if ex.kind == "rect" and max(it[0]) < 0.5}
    keep = [e for e in evs if len(e) == 0 or (len(e) == 1 and next(iter(e.values())) in single)]
    pk = ex.pair_items[:: max(1, len(ex.pair_items) // 3)][:3]
    keep += [e for e in evs if len(e) == 2 and all(v in pk for v in e.values())]
    return keep


def _sets(st):
    return set(st["S"]), set(st["P"]), set(st["U"])


def run_hist(unit, res, replay=None):
    _, which, alg_name, spec, m, K, mu, depth = unit[:8]
    full = int(unit[8]) if len(unit) > 8 else 0
    core.import_vopy()
    import copy

    mu = np.asarray(mu, float)
    ex = _explorer(which, alg_name, spec, m, K, mu, depth, res)
    st0 = {"S": set(range(K)), "P": set(), "U": set(), "layer": 0, "budget": depth, "frozen": {}}
    live0 = copy.deepcopy(ex.tmpl)
    n_paths = [0]
    outcomes = set()

    def compare(st, ev, live, path):
        """returns (state, live instance) after the step, or None when the two executions disagree"""
        st_l, done_l, _ = ex.step(st, ev, live=live)
        live2 = ex.last_alg
        st_f, done_f, _ = ex.step(st, ev)
        res["states"] += 1
        Sl, Pl, Ul = _sets(st_l)
        Sf, Pf, Uf = _sets(st_f)
        before = set(st["S"])
        d_l, d_f = before - Sl - Pl, before - Sf - Pf
        p_l, p_f = Pl - set(st["P"]), Pf - set(st["P"])
        mine = (d_l != d_f) if which == "C02" else (p_l != p_f or Ul != Uf or done_l != done_f)
        other = (Sl, Pl, Ul, done_l) != (Sf, Pf, Uf, done_f)
        if mine:
            what = (f"eliminated {sorted(d_l)} on the instance that ran the whole history, {sorted(d_f)} on a fresh instance given the same state" if which == "C02"
                    else f"moved {sorted(p_l)} to P (U={sorted(Ul)}, done={done_l}) on the instance that ran the whole history, {sorted(p_f)} (U={sorted(Uf)}, done={done_f}) on a fresh instance given the same state")
            res["violations"].append(core.violation(
                which, {"kind": "history-dependent-decision", "alg": alg_name},
                {"mode": "hist", "unit": [unit[0], which, alg_name, spec, m, K, mu.tolist(), depth, int(full)], "path": path},
                {"S": sorted(Sf), "P": sorted(Pf), "U": sorted(Uf)}, {"S": sorted(Sl), "P": sorted(Pl), "U": sorted(Ul)},
                f"{alg_name} cone={cones.name(spec) if spec else 'orthant'} truth={mu.tolist()} path={path}: round {len(path)} with identical displayed regions, S, P, U and round number "
                f"{what} (before: S={sorted(before)} P={sorted(st['P'])})"))
            return None
        if other:
            core.bump(res, "divergence_of_the_other_class")  # reported by the sibling property's run of this unit
            return None
        return st_l, live2, done_l

    def dfs(st, live, path):
        if len(path) >= depth or not st["S"]:
            n_paths[0] += 1
            outcomes.add((tuple(sorted(st["S"])), tuple(sorted(st["P"])), tuple(sorted(st["U"]))))
            return
        for ev in _events(ex, st, K, full=full):
            if res["violations"]:
                return
            p2 = path + [{str(k): v for k, v in ev.items()}]
            r = compare(st, ev, live, p2)
            if r is None:
                continue
            st2, live2, done = r
            if done:
                n_paths[0] += 1
                outcomes.add((tuple(sorted(st2["S"])), tuple(sorted(st2["P"])), tuple(sorted(st2["U"]))))
                continue
            dfs(st2, live2, p2)

    if replay is not None:
        st, live = st0, live0
        for k, evs in enumerate(replay):
            r = compare(st, {int(a): b for a, b in evs.items()}, live, replay[: k + 1])
            if r is None:
                return
            st, live, _ = r
        return
    dfs(st0, live0, [])
    res["nontrivial"] += len(outcomes)
    core.bump(res, "hist_paths", n_paths[0])
    res["outcomes"].append(f"hist|{alg_name}|{cones.name(spec) if spec else 'orth'}|{mu.tolist()}|{sorted(outcomes)}")
    res["samples"].append({"flavour": "live instance vs fresh injected instance", "alg": alg_name, "cone": cones.name(spec) if spec else "orthant",
                           "truth": mu.tolist(), "depth": depth, "paths": n_paths[0], "distinct_end_states": len(outcomes)})


def units(ctx, which):
    """unit = ("hist", which, alg, spec, m, K, truth, depth, menu)  menu: 0 reduced, 1 full, 2 tiny"""
    us = []
    for alg in stepmc.ALGS:
        spec = None if alg in stepmc.ORTHANT_ONLY else ("comp", 2)
        specs = [spec]
        if spec is not None and (ctx.thorough or alg == "VOGP"):
            specs = [("comp", 2), ("theta", 60)] + ([("theta", 135)] if ctx.thorough else [])
        for sp in specs:
            t2 = reach.truths(2, 2, ctx.thorough, ctx.seed)
            t3 = reach.truths(3, 2, ctx.thorough, ctx.seed)
            if ctx.thorough:
                for k, mu in enumerate(t2[:6]):
                    full = 1 if (k in (1, 3) and sp in (None, ("comp", 2))) else 0
                    us.append(("hist", which, alg, sp, 2, 2, mu.tolist(), 2, full))
                    if k in (1, 2, 3):
                        us.append(("hist", which, alg, sp, 2, 2, mu.tolist(), 3, 2))  # three rounds, tiny menu
                for mu in t3[:2]:
                    us.append(("hist", which, alg, sp, 2, 3, mu.tolist(), 2, 0))
                continue
            pick = [1, 3 + ctx.seed % 3] if not alg.startswith("PartialGP") else [1 + ctx.seed % 3]
            for mu in [t2[k] for k in pick]:
                us.append(("hist", which, alg, sp, 2, 2, mu.tolist(), 2, 0))
            if alg in ("VOGP", "EpsilonPAL", "PaVeBaGP-IH", "Auer") and sp in (None, ("comp", 2)):
                us.append(("hist", which, alg, sp, 2, 3, t3[ctx.seed % 2].tolist(), 2, 0))
    us.sort(key=lambda u: (0 if u[8] == 1 else 1, -u[5]))  # full-menu units first, then K = 3
    return us
