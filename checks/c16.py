"""C16 - the empirical model reports per-design running statistics of all samples.

opseq engine: DFS over ALL operation sequences up to depth D over a small alphabet (index forms x
value variants, update, clear, predict under each tracking mode) on the real EmpiricalMeanVarModel;
after every update the real predictions are compared with an exact rational accumulator.  States
reached by different sequences that hold the same per-design multisets must predict identically
(history-differential oracle).
"""
import copy
import itertools
from fractions import Fraction

import numpy as np

from vmc import core

PROPERTY = "C16"
LEVEL = "model_checking"
RULE = ("all sequences of depth <= D (quick 4, thorough 5) over {add_sample with index forms [0],[1],[0,0],[1,0],{0,1},[2,0,2] x 2 value "
        "variants, out-of-range / length-mismatch adds (must raise, state unchanged), update, clear, predict-with-tracking-off} x the four "
        "(track_means, track_variances) constructions, D=3 designs, m=2; state = per-design sample multiset; non-trivial = distinct model states")
ASSUMPTIONS = [
    "dyadic sample values: float mean/variance are exact up to 1 ulp; tolerance 1e-12",
    "predictions are compared at the model's documented refresh point (right after update())",
]

D = 3
M = 2
NOISE = 0.25
VALS = [np.array([0.0, 0.0]), np.array([1.0, -0.5]), np.array([-2.0, 4.0]), np.array([0.5, 0.25])]
INDEX_FORMS = [[0], [1], [0, 0], [1, 0], {0, 1}, [2, 0, 2]]


def ops():
    out = []
    for fi, form in enumerate(INDEX_FORMS):
        for var in (0, 1):
            out.append(("add", fi, var))
    out.append(("add_bad_index", D))
    out.append(("add_bad_index", D + 1))
    out.append(("add_len_mismatch",))
    out.append(("update",))
    out.append(("clear",))
    out.append(("predict_var_off",))
    return out


def y_for(form, var):
    n = len(form)
    return np.array([VALS[(var * 2 + r) % len(VALS)] * (1 + var) for r in range(n)])


class Ref:
    def __init__(self):
        self.samples = [[] for _ in range(D)]

    def add(self, form, Y):
        for idx, y in zip(form, Y):
            self.samples[idx].append(tuple(Fraction(float(v)) for v in y))

    def clear(self):
        self.samples = [[] for _ in range(D)]

    def stats(self, tm, tv):
        means, covs = [], []
        for s in self.samples:
            if not tm:
                means.append([0.0] * M)
            elif s:
                means.append([float(sum(r[k] for r in s) / len(s)) for k in range(M)])
            else:
                means.append([0.0] * M)
            if not tv:
                covs.append(np.eye(M))
            elif len(s) > 1:
                var = []
                for k in range(M):
                    mu = sum(r[k] for r in s) / len(s)
                    var.append(float(sum((r[k] - mu) ** 2 for r in s) / len(s)))
                covs.append(np.diag(var))
            else:
                covs.append(np.eye(M) * NOISE)
        return np.array(means), np.array(covs)

    def key(self):
        return tuple(tuple(sorted(s)) for s in self.samples)


def units(ctx):
    depth = 5 if ctx.thorough else 4
    us = []
    allops = ops()
    for tm in (True, False):
        for tv in (True, False):
            for first in range(len(allops)):
                us.append((tm, tv, first, depth))
    return us


def apply(model, ref, op, res, seq, tm, tv):
    """apply op to real model and reference; returns violation or None"""
    case = {"tm": tm, "tv": tv, "seq": [list(o) for o in seq]}

    def bad(kind, want, got, msg):
        return core.violation(PROPERTY, {"kind": kind}, case, want, got, f"EmpiricalMeanVarModel(track_means={tm}, track_variances={tv}) after {seq}: {msg}")

    res["evaluations"] += 1
    if op[0] == "add":
        form = INDEX_FORMS[op[1]]
        Y = y_for(form, op[2])
        Yin = Y.copy()
        model.add_sample(form, Yin)
        Yin[...] = 777.0  # the caller re-uses its buffer: the model must have kept its own copy
        ref.add(form, Y)
    elif op[0] in ("add_bad_index", "add_len_mismatch"):
        before = [d.copy() for d in model.design_samples]
        try:
            if op[0] == "add_bad_index":
                model.add_sample([0, op[1]], np.array([VALS[1], VALS[2]]))
            else:
                model.add_sample([0, 1], np.array([VALS[1]]))
            return bad(op[0] + "-accepted", "rejected", "accepted", "an invalid add_sample was not rejected")
        except Exception:  # any exception counts as a rejection; the stored samples must be untouched (checked next)
            pass
        if any(not np.array_equal(a, b) for a, b in zip(before, model.design_samples)):
            return bad("rejected-add-changed-state", "unchanged", "changed", "a rejected add_sample modified the stored samples")
    elif op[0] == "clear":
        model.clear_data()
        ref.clear()
    elif op[0] in ("update", "predict_var_off"):
        model.update()
        X = np.hstack([np.zeros((D, 1)), np.arange(D)[:, None]]).astype(float)
        order = [2, 0, 1, 1]
        Xq = X[order]
        if op[0] == "predict_var_off":
            old = model.track_variances
            model.track_variances = False  # the Auer pattern: tracking off around a prediction
            mu, cov = model.predict(Xq)
            model.track_variances = old
            wm, wc = ref.stats(tm, False)
        else:
            mu, cov = model.predict(Xq)
            wm, wc = ref.stats(tm, tv)
        wm, wc = wm[order], wc[order]
        if np.asarray(mu).shape != (len(order), M) or np.asarray(cov).shape != (len(order), M, M):
            return bad("shape", [(len(order), M), (len(order), M, M)], [np.asarray(mu).shape, np.asarray(cov).shape], "prediction shapes wrong")
        if not np.allclose(mu, wm, rtol=0, atol=1e-12):
            return bad("mean", wm.tolist(), np.asarray(mu).tolist(), f"means {np.asarray(mu).tolist()} != arithmetic means {wm.tolist()} of samples {ref.key()}")
        if not np.allclose(cov, wc, rtol=0, atol=1e-12):
            return bad("variance", wc.tolist(), np.asarray(cov).tolist(), f"covariances differ from population variance / noise-variance rule for samples {ref.key()}")
        res["nontrivial"] += 1
    return None


def run_unit(unit, only=None):
    tm, tv, first, depth = unit
    core.import_vopy()
    from vopy.models import EmpiricalMeanVarModel

    res = core.new_result()
    allops = ops()
    seen_states = {}
    n_seq = [0]

    def dfs(model, ref, seq):
        if len(seq) >= depth + 1:
            return False
        for oi, op in enumerate(allops):
            if len(seq) >= depth:
                # extra level: only histories that already updated, then cleared, and now end with an update
                names = [o[0] for o in seq]
                if op[0] != "update" or "clear" not in names or "update" not in names[: names.index("clear")] or only is not None and False:
                    continue
            if len(seq) == 0 and oi != first:
                continue
            if only is not None and (len(seq) >= len(only) or list(op) != list(only[len(seq)])):
                continue
            m2 = copy.deepcopy(model)
            r2 = copy.deepcopy(ref)
            seq2 = seq + [op]
            n_seq[0] += 1
            res["transitions"] += 1
            v = apply(m2, r2, op, res, seq2, tm, tv)
            if v is not None:
                res["violations"].append(v)
                return True
            if op[0] == "update":
                # history-differential: same multisets => same predictions (order / batching independence)
                k = r2.key()
                X = np.hstack([np.zeros((D, 1)), np.arange(D)[:, None]]).astype(float)
                pm, pc = m2.predict(X)
                fp = (np.round(pm, 12).tobytes(), np.round(pc, 12).tobytes())
                if k in seen_states and seen_states[k][0] != fp:
                    res["violations"].append(core.violation(PROPERTY, {"kind": "history-dependence"}, {"tm": tm, "tv": tv, "seq": [list(o) for o in seq2]},
                                                            "equal predictions", "differ", f"two histories holding the same samples predict differently: {seq2} vs {seen_states[k][1]}"))
                    return True
                seen_states.setdefault(k, (fp, seq2))
            if dfs(m2, r2, seq2):
                return True
        return False

    model = EmpiricalMeanVarModel(1, M, NOISE, D, track_means=tm, track_variances=tv)
    dfs(model, Ref(), [])
    res["states"] += max(1, len(seen_states))
    res["outcomes"].extend(f"{tm}{tv}:{hash(k) % 100000}" for k in list(seen_states)[:50])
    res["samples"].append({"track_means": tm, "track_variances": tv, "first_op": list(allops[first]), "depth": depth, "sequences": n_seq[0]})
    return res


def replay_case(case):
    seq = [tuple(o) for o in case["seq"]]
    allops = ops()
    first = [list(o) for o in allops].index(list(seq[0]))
    res = run_unit((case["tm"], case["tv"], first, len(seq)), only=[list(o) for o in seq])
    return res["violations"]


def finish(ctx, merged):
    if merged["nontrivial"] < 1000:
        return {"harness_error": "vacuous: too few compared predictions"}
    return {}
