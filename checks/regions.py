"""Shared enumerator for C09 (is_dominated), C10 (is_covered) and C11 (check_dominates).

Inputs: ordered pairs of lattice rectangles / alphabet ellipsoids, embedded at every scale of the
ladder with a seed-derived dyadic offset, anisotropic stretches, x cone family x slack forms.
Each pair is sent to the real predicate and to the independent oracle of vmc.oracles.
"""
import itertools

import numpy as np

from vmc import cones, core, lattice, oracles

# ---------------------------------------------------------------------------------------------
# alphabets

STRETCH = [(1.0, 1.0), (1.0, 1.0 / 16), (1.0 / 16, 1.0)]
ELL_SHAPES = [
    ((1.0, 0.0), (0.0, 1.0)),
    ((1.0, 0.0), (0.0, 1.0 / 16)),
    ((1.0 / 16, 0.0), (0.0, 1.0)),
    ((1.0, 0.8), (0.8, 1.0)),
    ((1.0, -0.8), (-0.8, 1.0)),
]


def _r1_shapes(m, thorough):
    if m == 2:
        base = [((0, 0), (1, 1)), ((0, 0), (3, 1)), ((0, 0), (1, 3)), ((1, 1), (3, 3)), ((2, 0), (3, 2)), ((0, 2), (2, 3))]
        if thorough:
            return None  # all rectangles
        return [(np.array(a, float), np.array(b, float)) for a, b in base]
    base = [((0, 0, 0), (1, 1, 1)), ((0, 0, 0), (2, 1, 1)), ((1, 0, 1), (2, 2, 2))]
    return [(np.array(a, float), np.array(b, float)) for a, b in base]


def embed(lo, hi, sc, off, stretch):
    st = np.asarray(stretch, float)
    return lo * sc * st + off, hi * sc * st + off


def slack_forms(prop, W, sc, kind):
    """list of (label, slack) ; rectangles: objective-space shifts (scalar or m-vector);
    ellipsoids: per-facet allowances (scalar or K-vector)"""
    K, m = W.shape
    out = [("zero", 0.0), ("scalar", 0.5 * sc)]
    if kind == "rect":
        try:
            us, _, _ = oracles.u_star(W)
            out.append(("ustar", 0.75 * sc * us))
        except ArithmeticError:
            pass
        out.append(("uneq", np.array([0.25, 1.0, 0.5][:m]) * sc))
        out.append(("negmix", np.array([0.5, -0.25, 0.25][:m]) * sc))
    else:
        out.append(("facetvec", np.array([0.25 + 0.5 * (k % 3) for k in range(K)]) * sc))
    return out


# ---------------------------------------------------------------------------------------------
# units


def units(ctx, prop):
    us = []
    scs = lattice.scales_for(ctx.thorough, ctx.seed, 2)
    if prop in ("C09", "C10"):
        fam2 = cones.family_2d(ctx.thorough, ctx.seed)
        fam3 = cones.family_3d(ctx.thorough)
        if prop == "C10" and not ctx.thorough:
            fam2 = [("comp", 2), ("theta", 45), ("theta", 60), ("theta", 90), ("theta", 120), ("theta", 135), ("theta", 150), ("theta3", 135),
                    ("W", ((-1, 2), (2, -1))), ("W", ((1, 1), (-1, 2)))]
            fam3 = [("c3d", "acute"), ("c3d", "obtuse"), ("ice", 30, 4)]
        for sc in scs:
            for spec in fam2:
                for st in range(len(STRETCH)):
                    us.append(("rect", prop, spec, 2, sc, st, ctx.seed, ctx.thorough))
                if prop == "C09":
                    us.append(("rect", prop, spec, 2, sc, 0, ctx.seed, ctx.thorough, 1))  # far translation (numpy predicate)
        # every rung of the scale ladder is visited on every run: the rungs the seed did not select get a reduced
        # cone family (absolute-threshold shortcuts - "boxes this small are points" - show only on one rung)
        for sc in [s_ for s_ in lattice.SCALES if s_ not in scs]:
            for spec in [("comp", 2), ("theta", 60), ("theta", 135)]:
                us.append(("rect", prop, spec, 2, sc, 0, ctx.seed, ctx.thorough))
        for spec in fam3:
            us.append(("rect", prop, spec, 3, scs[0], 0, ctx.seed, ctx.thorough))
        # ellipsoids (2-D): K SOCPs per call -> smaller family in quick
        efam = [("comp", 2), ("theta", 60), ("theta", 135), ("theta3", 135)]
        if ctx.thorough:
            efam = [("comp", 2)] + [("theta", t) for t in (30, 45, 60, 90, 120, 135, 150)] + [("theta3", 60), ("theta3", 135)]
        for sc in scs:
            for spec in efam:
                for sh1 in range(len(ELL_SHAPES)):
                    us.append(("ell", prop, spec, sc, sh1, ctx.seed, ctx.thorough))
        for sc in [s_ for s_ in lattice.SCALES if s_ not in scs]:  # the other rungs, reduced family
            for spec in [("comp", 2), ("theta", 135)]:
                for sh1 in (0, 3):
                    us.append(("ell", prop, spec, sc, sh1, ctx.seed, ctx.thorough))
        for spec in ([("ice", 30, 4), ("c3d", "acute")] if not ctx.thorough else [("ice", 30, 4), ("ice", 60, 4), ("ice", 60, 6), ("c3d", "acute"), ("c3d", "obtuse")]):
            us.append(("ell3", prop, spec, scs[0], ctx.seed, ctx.thorough))
        us.append(("errors", prop))
        for spec in [("comp", 2), ("theta", 60), ("theta", 135)]:
            for sc in sorted(set([2.0 ** -14, lattice.SCALES[3], scs[0]])):  # tiny scales (covariances 4e-9 / 1.5e-8: below any absolute "unchanged" tolerance) always, plus one more
                us.append(("ellseq", prop, spec, sc, ctx.seed))
    else:  # C11
        fam2 = cones.family_2d(ctx.thorough, ctx.seed)
        if not ctx.thorough:
            # the predicate and its oracle are cheap: the full 10-degree theta grid in quick as well (keeps the F13 witnesses)
            fam2 = fam2 + [("theta", t) for t in cones.thetas(True) if ("theta", t) not in fam2]
        fam3 = cones.family_3d(ctx.thorough)
        for sc in scs:
            for spec in fam2:
                for st in range(len(STRETCH)):
                    us.append(("pess", prop, spec, 2, sc, st, ctx.seed, ctx.thorough, 0))
                    us.append(("pess", prop, spec, 2, sc, st, ctx.seed, ctx.thorough, 1))
        for sc in [s_ for s_ in lattice.SCALES if s_ not in scs]:  # the other rungs of the ladder, reduced family
            for spec in [("comp", 2), ("theta", 60), ("theta", 135)]:
                us.append(("pess", prop, spec, 2, sc, 0, ctx.seed, ctx.thorough, 0))
        for spec in fam3:
            us.append(("pess", prop, spec, 3, scs[0], 0, ctx.seed, ctx.thorough, 0))
            us.append(("pess", prop, spec, 3, scs[0], 0, ctx.seed, ctx.thorough, 1))
    return us


# ---------------------------------------------------------------------------------------------
# rectangles: C09 / C10


def _mk_rect(l, u):
    from vopy.confidence_region import RectangularConfidenceRegion

    return RectangularConfidenceRegion(len(l), np.array(l, float), np.array(u, float))


FAR = 2.0 ** 17  # far embedding: coordinates ~1.3e5 x the region size (translation invariance of the cone order)


def _offset(seed, m, sc, far=0):
    off = lattice.offset_for(seed, m, sc)
    if sc < 1e-3:
        off = off + 1.0  # tiny regions at coordinates ~ 1 (late-run regime)
    if far:
        off = off + FAR * sc * np.array([1.0, -1.0, 1.0][:m])
    return off


def tau_numpy(*arrays):
    """tolerance for predicates implemented in plain numpy (rectangle is_dominated, check_dominates):
    their rounding error is ~1e-15*|data|, so 1e-10*|data| is a wide margin (the cvxpy-based
    predicates keep 1e-6*|data|, the solvers' feasibility tolerance being ~1e-8 relative)"""
    return oracles.tau_for(*arrays) * 1e-4


def rect_case(prop, spec, m, sc, st, seed, i1, i2, slabel, res, n_lat, far=0):
    """execute one (pair, slack) case; returns violation or None"""
    from vopy.confidence_region import confidence_region_is_covered, confidence_region_is_dominated

    order = cones.make_order(spec)
    W = order.ordering_cone.W
    intW = bool(np.all(W == np.round(W)))
    rects = lattice.rectangles(m, n_lat, degenerate=False)
    off = _offset(seed, m, sc, far)
    stretch = STRETCH[st] if m == 2 else (1.0,) * m
    l1, u1 = embed(*rects[i1], sc, off, stretch)
    l2, u2 = embed(*rects[i2], sc, off, stretch)
    slack = dict(slack_forms(prop, W, sc, "rect"))[slabel]
    # is_dominated is plain numpy (tight tolerance); is_covered goes through an LP solver
    tau = tau_numpy(l1, u1, l2, u2) if prop == "C09" else oracles.tau_for(l1, u1, l2, u2)
    R1, R2 = _mk_rect(l1, u1), _mk_rect(l2, u2)
    case = {"mode": "rect", "prop": prop, "spec": spec, "m": m, "sc": sc, "st": st, "seed": seed, "i1": i1, "i2": i2,
            "slack": slabel, "n_lat": n_lat, "far": far}
    res["evaluations"] += 1
    if prop == "C09":
        got = bool(np.all(confidence_region_is_dominated(order, R1, R2, slack)))
        v = oracles.rect_dominated_value(W, l1, u1, l2, u2, slack)
        exact_ok = intW and slabel in ("zero", "scalar", "uneq", "negmix")
        if exact_ok:
            want = oracles.rect_dominated_exact(W, l1, u1, l2, u2, slack) >= 0
            verdict = 1 if want else -1
            if abs(v) <= tau:
                core.bump(res, "exact_boundary_decided")
        else:
            verdict = oracles.tri(v, tau)
        key = {"kind": "rect-is_dominated", "cone_class": cones.cone_class(spec), "slack": slabel}
        what = "is_dominated"
    else:
        got = bool(confidence_region_is_covered(order, R1, R2, slack))
        v = oracles.rect_covered_value(W, l1, u1, l2, u2, slack)
        verdict = oracles.tri(v, tau)
        key = {"kind": "rect-is_covered", "cone_class": cones.cone_class(spec), "slack": slabel}
        what = "is_covered"
    if verdict == 0:
        res["boundary_skipped"] += 1
        return None
    res["nontrivial"] += 1
    core.bump(res, "verdict_true" if verdict > 0 else "verdict_false")
    if got != (verdict > 0):
        return core.violation(
            prop, key, case, verdict > 0, got,
            f"rect {what}: R1=[{l1.tolist()},{u1.tolist()}] R2=[{l2.tolist()},{u2.tolist()}] cone={cones.name(spec)} "
            f"slack={np.asarray(slack).tolist()} -> impl {got}, oracle value {v:.3e} (tau {tau:.1e})")
    return None


def run_rect(unit, res, only=None):
    _, prop, spec, m, sc, st, seed, thorough = unit[:8]
    far = unit[8] if len(unit) > 8 else 0
    core.import_vopy()
    order = cones.make_order(spec)
    W = order.ordering_cone.W
    n_lat = 3 if m == 2 else 2
    if m == 2 and thorough and prop == "C09" and (sum(map(ord, cones.name(spec))) % 2 == 0 or spec[0] == "comp"):
        n_lat = 4  # all x all on the 5x5 corner lattice for about half of the cone family (cost)
    rects = lattice.rectangles(m, n_lat)
    r1s = _r1_shapes(m, thorough and prop == "C09" and n_lat == 4)
    if r1s is None:
        i1s = list(range(len(rects)))
    else:
        i1s = [k for k, (lo, hi) in enumerate(rects) if any(np.array_equal(lo, a) and np.array_equal(hi, b) for a, b in r1s)]
    if prop == "C10" and not thorough:
        i1s = i1s[:4] if m == 2 else i1s[:2]
    i2s = list(range(len(rects)))
    if m == 3 and not thorough:
        i2s = i2s[:: 2 if prop == "C09" else 3]
    labels = [l for l, _ in slack_forms(prop, W, sc, "rect")]
    if prop == "C10" and not thorough:
        labels = [l for l in labels if l in ("zero", "scalar", "ustar")]
    nv = 0
    for i1 in i1s:
        for i2 in i2s:
            for sl in labels:
                v = rect_case(prop, spec, m, sc, st, seed, i1, i2, sl, res, n_lat, far)
                if v is not None:
                    res["violations"].append(v)
                    nv += 1
                    if nv >= 4:
                        return
    res["outcomes"].append(f"{prop}:{cones.name(spec)}:{sc}:{st}:{res['counters'].get('verdict_true', 0)}")
    res["samples"].append({"kind": "rect", "cone": cones.name(spec), "scale": sc, "stretch": STRETCH[st] if m == 2 else 1,
                           "R1": [rects[i1s[0]][0].tolist(), rects[i1s[0]][1].tolist()], "pairs": len(i1s) * len(i2s), "slacks": labels})


# ---------------------------------------------------------------------------------------------
# ellipsoids: C09 / C10


def _mk_ell(c, S, a):
    from vopy.confidence_region import EllipsoidalConfidenceRegion

    return EllipsoidalConfidenceRegion(len(c), np.array(c, float), np.array(S, float), float(a))


ELL_SHAPES3 = [
    ((1.0, 0.0, 0.0), (0.0, 1.0, 0.0), (0.0, 0.0, 1.0)),
    ((1.0, 0.0, 0.0), (0.0, 1.0 / 16, 0.0), (0.0, 0.0, 1.0)),
    ((1.0, 0.6, 0.0), (0.6, 1.0, -0.5), (0.0, -0.5, 1.0)),
]


def ell_case(prop, spec, sc, sh1, seed, r1, cx, cy, sh2, r2, slabel, res, cz=None):
    from vopy.confidence_region import confidence_region_is_covered, confidence_region_is_dominated

    order = cones.make_order(spec)
    W = order.ordering_cone.W
    shapes = ELL_SHAPES if cz is None else ELL_SHAPES3
    off = _offset(seed, 2 if cz is None else 3, sc)
    radii = (0.25, 1.0)
    c1 = off.copy()
    c2 = off + np.array([cx, cy] if cz is None else [cx, cy, cz], float) * sc
    # Sigma carries the physical scale (sc^2); alpha (radius) stays O(1), as in the algorithms
    S1 = np.array(shapes[sh1], float) * sc * sc
    S2 = np.array(shapes[sh2], float) * sc * sc
    a1, a2 = radii[r1], radii[r2]
    slack = dict(slack_forms(prop, W, sc, "ell"))[slabel]
    tau = oracles.tau_for(c1, c2, [sc])
    E1, E2 = _mk_ell(c1, S1, a1), _mk_ell(c2, S2, a2)
    case = {"mode": "ell", "prop": prop, "spec": spec, "sc": sc, "sh1": sh1, "seed": seed, "r1": r1, "cx": cx, "cy": cy,
            "sh2": sh2, "r2": r2, "slack": slabel, "cz": cz}
    res["evaluations"] += 1
    if prop == "C09":
        got = bool(confidence_region_is_dominated(order, E1, E2, slack))
        vals = oracles.ell_dominated_values(W, c1, S1, a1, c2, S2, a2, slack)
        v = min(vals)
        verdict = oracles.tri(v, tau)
        what = "is_dominated"
    else:
        got = bool(confidence_region_is_covered(order, E1, E2, slack))
        lo, hi = oracles.ell_covered_bounds(W, c1, S1, a1, c2, S2, a2, slack)
        verdict = 1 if lo > tau else (-1 if hi < -tau else 0)
        v = lo if verdict >= 0 else hi
        what = "is_covered"
    if verdict == 0:
        res["boundary_skipped"] += 1
        return None
    res["nontrivial"] += 1
    core.bump(res, "ell_true" if verdict > 0 else "ell_false")
    if got != (verdict > 0):
        return core.violation(
            prop, {"kind": "ell-" + what, "cone_class": cones.cone_class(spec), "slack": slabel}, case, verdict > 0, got,
            f"ellipsoid {what}: c1={c1.tolist()} S1={S1.tolist()} a1={a1} c2={c2.tolist()} S2={S2.tolist()} a2={a2} "
            f"cone={cones.name(spec)} slack={np.asarray(slack).tolist()} -> impl {got}, certified value {v:.3e} (tau {tau:.1e})")
    return None


def run_ell(unit, res):
    _, prop, spec, sc, sh1, seed, thorough = unit
    core.import_vopy()
    W = cones.W_of(spec)
    labels = [l for l, _ in slack_forms(prop, W, sc, "ell")]
    cgrid = (-2, -1, 0, 1, 2)
    sh2s = range(len(ELL_SHAPES))
    if not thorough:
        labels = ["zero", "facetvec"]  # the per-facet vector (unequal entries) is the form the algorithms pass
        sh2s = [sh1, (sh1 + 1) % len(ELL_SHAPES), (sh1 + 3) % len(ELL_SHAPES)]
    nv = 0
    n = 0
    for r1 in (0, 1):
        for cx in cgrid:
            for cy in cgrid:
                for sh2 in sh2s:
                    for r2 in (0, 1):
                        if not thorough and (r1 + r2 + cx + cy + sh2) % 2:
                            continue  # half of the product in quick (deterministic checkerboard)
                        for sl in labels:
                            n += 1
                            v = ell_case(prop, spec, sc, sh1, seed, r1, cx, cy, sh2, r2, sl, res)
                            if v is not None:
                                res["violations"].append(v)
                                nv += 1
                                if nv >= 4:
                                    return
    res["outcomes"].append(f"{prop}:ell:{cones.name(spec)}:{sc}:{sh1}:{res['counters'].get('ell_true', 0)}")
    res["samples"].append({"kind": "ellipsoid", "cone": cones.name(spec), "scale": sc, "shape1": ELL_SHAPES[sh1], "cases": n})


def run_ell3(unit, res):
    """3-D ellipsoids: the only place where a cone has more NON-REDUNDANT facets than objectives (K = 4 > m = 3)"""
    _, prop, spec, sc, seed, thorough = unit
    core.import_vopy()
    cgrid = (-2, -1, 0, 1, 2) if thorough else (-2, 0, 2)
    nv = n = 0
    for sh1 in range(len(ELL_SHAPES3)):
        for sh2 in (range(len(ELL_SHAPES3)) if thorough else [sh1, (sh1 + 1) % 3]):
            for r1 in (0, 1):
                for r2 in ((0, 1) if thorough else (r1,)):
                    for cx in cgrid:
                        for cy in cgrid:
                            for cz in cgrid:
                                for sl in ["zero", "facetvec"]:
                                    n += 1
                                    v = ell_case(prop, spec, sc, sh1, seed, r1, cx, cy, sh2, r2, sl, res, cz=cz)
                                    if v is not None:
                                        res["violations"].append(v)
                                        nv += 1
                                        if nv >= 4:
                                            return
    res["outcomes"].append(f"{prop}:ell3:{cones.name(spec)}:{sc}:{res['counters'].get('ell_true', 0)}")
    res["samples"].append({"kind": "ellipsoid 3-D", "cone": cones.name(spec), "scale": sc, "cases": n})


# ---------------------------------------------------------------------------------------------
# region OBJECTS reused across rounds (as the design space does): sequences of update() on the same two
# ellipsoid objects, predicate evaluated after every update - nothing may be remembered from earlier shapes


def run_ellseq(unit, res, only=None):
    _, prop, spec, sc, seed = unit
    core.import_vopy()
    from vopy.confidence_region import EllipsoidalConfidenceRegion, confidence_region_is_covered, confidence_region_is_dominated

    order = cones.make_order(spec)
    W = order.ordering_cone.W
    off = _offset(seed, 2, sc)
    shapes = [np.array(x, float) for x in ELL_SHAPES]
    # states: (centre in lattice units, covariance factor, radius); sizes differ by up to 64x
    SA = [((0, 0), shapes[0], 1.0), ((0, 0), shapes[0] / 64.0, 1.0), ((0.5, 0), shapes[3], 0.5), ((0, 0.5), shapes[1], 1.0)]
    SB = [((2, 2), shapes[0], 1.0), ((0.3, 0.3), shapes[0] / 64.0, 1.0), ((1.5, -1), shapes[4], 0.5), ((-1, 1.5), shapes[2], 1.0), ((0.2, -0.2), shapes[3] / 16.0, 1.0)]
    slack = dict(slack_forms(prop, W, sc, "ell"))["facetvec" if prop == "C09" else "zero"]
    fn = confidence_region_is_dominated if prop == "C09" else confidence_region_is_covered
    nv = 0
    n = 0
    for seqA in itertools.product(range(len(SA)), repeat=3):
        for seqB in itertools.product(range(len(SB)), repeat=3):
            if (sum(seqA) + 2 * sum(seqB)) % 4 != seed % 4:
                continue  # a quarter of the product per seed
            if only is not None and [list(seqA), list(seqB)] != only:
                continue
            A, B = EllipsoidalConfidenceRegion(2), EllipsoidalConfidenceRegion(2)
            n += 1
            for k in range(3):
                ca, Sa, ra = SA[seqA[k]]
                cb, Sb, rb = SB[seqB[k]]
                c1, c2 = off + np.array(ca, float) * sc, off + np.array(cb, float) * sc
                S1, S2 = Sa * sc * sc, Sb * sc * sc
                A.update(c1.copy(), S1.copy(), np.array(ra))
                B.update(c2.copy(), S2.copy(), np.array(rb))
                res["evaluations"] += 1
                got = bool(fn(order, A, B, slack))
                tau = oracles.tau_for(c1, c2, [sc])
                if prop == "C09":
                    v = min(oracles.ell_dominated_values(W, c1, S1, ra, c2, S2, rb, slack))
                    verdict = oracles.tri(v, tau)
                else:
                    lo, hi = oracles.ell_covered_bounds(W, c1, S1, ra, c2, S2, rb, slack)
                    verdict = 1 if lo > tau else (-1 if hi < -tau else 0)
                    v = lo if verdict >= 0 else hi
                if verdict == 0:
                    res["boundary_skipped"] += 1
                    continue
                res["nontrivial"] += 1
                core.bump(res, "ellseq_true" if verdict > 0 else "ellseq_false")
                if got != (verdict > 0):
                    res["violations"].append(core.violation(
                        prop, {"kind": "ell-object-reuse", "cone_class": cones.cone_class(spec)},
                        {"mode": "ellseq", "unit": list(unit), "seqA": list(seqA), "seqB": list(seqB)}, verdict > 0, got,
                        f"two ellipsoid objects updated through states A{list(seqA[: k + 1])} / B{list(seqB[: k + 1])} at scale {sc}: after update #{k + 1} the predicate answers {got}, "
                        f"the regions now displayed (centres {c1.tolist()}, {c2.tolist()}) give certified value {v:.3e} (tau {tau:.1e}) cone={cones.name(spec)}"))
                    nv += 1
                    break
            if nv >= 3:
                return
    res["outcomes"].append(f"{prop}:ellseq:{cones.name(spec)}:{sc}")
    res["samples"].append({"kind": "ellipsoid objects reused across updates", "cone": cones.name(spec), "scale": sc, "sequence_pairs": n})


# ---------------------------------------------------------------------------------------------
# documented errors


def run_errors(prop, res):
    core.import_vopy()
    from vopy.confidence_region import confidence_region_is_covered, confidence_region_is_dominated

    fn = confidence_region_is_dominated if prop == "C09" else confidence_region_is_covered
    R1, R2 = _mk_rect([0, 0], [1, 1]), _mk_rect([2, 2], [3, 3])
    E1, E2 = _mk_ell([0, 0], np.eye(2), 1.0), _mk_ell([3, 3], np.eye(2), 1.0)
    for spec in (("comp", 2), ("theta3", 90)):
        order = cones.make_order(spec)
        K = order.ordering_cone.W.shape[0]
        for kind, A, B, badlen, goodlens in (("rect", R1, R2, [3, 5], [2]), ("ell", E1, E2, [K + 1, K + 3], [K])):
            for n in badlen:
                res["evaluations"] += 1
                res["nontrivial"] += 1
                try:
                    fn(order, A, B, np.ones(n) * 0.1)
                    res["violations"].append(core.violation(
                        prop, {"kind": kind + "-slack-length-not-rejected"}, {"mode": "errors", "prop": prop}, "ValueError", "no error",
                        f"{kind} {fn.__name__} accepted a slack of length {n} (cone {cones.name(spec)})"))
                except ValueError:
                    core.bump(res, "valueerror_ok")
            for n in goodlens:
                res["evaluations"] += 1
                try:
                    fn(order, A, B, np.ones(n) * 0.1)
                except Exception as e:  # a valid vector slack must be accepted
                    res["violations"].append(core.violation(
                        prop, {"kind": kind + "-valid-slack-rejected", "cone_class": cones.cone_class(spec)}, {"mode": "errors", "prop": prop},
                        "accepted", repr(e), f"{kind} {fn.__name__} rejected a valid slack of length {n} (cone {cones.name(spec)})"))
    res["samples"].append({"kind": "error-paths", "checked": "slack length validation"})


# ---------------------------------------------------------------------------------------------
# C11


def pess_case(spec, m, sc, st, seed, i1, i2, sub, res, far=0):
    from vopy.confidence_region import confidence_region_check_dominates

    order = cones.make_order(spec)
    W = order.ordering_cone.W
    rects = lattice.rectangles(m, 2 if m == 2 else 1, degenerate=True)
    off = _offset(seed, m, sc, far)
    stretch = STRETCH[st] if m == 2 else (1.0,) * m
    l1, u1 = embed(*rects[i1], sc, off, stretch)
    l2, u2 = embed(*rects[i2], sc, off, stretch)
    # seed-derived sub-step shift of the second rectangle keeps lattice-aligned cones off the boundary
    shift = np.array([(sub % 3 - 1) * 0.125, ((sub // 3) % 3 - 1) * 0.125, 0.0625][:m]) * sc * np.asarray(stretch)
    l2, u2 = l2 + shift, u2 + shift
    tau = tau_numpy(l1, u1, l2, u2)
    R1, R2 = _mk_rect(l1, u1), _mk_rect(l2, u2)
    case = {"mode": "pess", "spec": spec, "m": m, "sc": sc, "st": st, "seed": seed, "i1": i1, "i2": i2, "sub": sub, "far": far}
    res["evaluations"] += 1
    got = bool(confidence_region_check_dominates(order, R1, R2))
    # the cone order is translation invariant: the oracle works on coordinates relative to l1 (exact for
    # dyadic data), so its own vertex enumeration is not affected by the size of the offset
    vals = oracles.rect_pess_values(W, l1 - l1, u1 - l1, l2 - l1, u2 - l1)
    vmin = min(vals)
    holds = vmin > tau
    fails = vmin < -tau
    if not holds and not fails:
        res["boundary_skipped"] += 1
        return None
    res["nontrivial"] += 1
    core.bump(res, "pess_holds" if holds else "pess_fails")
    if got and fails:
        return core.violation(
            "C11", {"kind": "pess-unsound", "cone_class": cones.cone_class(spec)}, case, False, True,
            f"check_dominates True but a vertex of R1=[{l1.tolist()},{u1.tolist()}] dominates no point of R2=[{l2.tolist()},{u2.tolist()}] "
            f"(margin {vmin:.3e}) cone={cones.name(spec)}")
    if W.shape == (2, 2) and holds and not got:
        return core.violation(
            "C11", {"kind": "pess-incomplete-2x2", "cone_class": cones.cone_class(spec)}, case, True, False,
            f"check_dominates False but every vertex of R1=[{l1.tolist()},{u1.tolist()}] dominates a point of R2=[{l2.tolist()},{u2.tolist()}] "
            f"with margin {vmin:.3e} cone={cones.name(spec)}")
    if holds and not got:
        core.bump(res, "incomplete_non2x2_allowed")
    return None


def run_pess(unit, res):
    _, prop, spec, m, sc, st, seed, thorough, far = unit
    core.import_vopy()
    rects = lattice.rectangles(m, 2 if m == 2 else 1, degenerate=True)
    subs = range(9) if thorough else [(seed + k) % 9 for k in (0, 2, 4, 7)]
    i1s = range(len(rects))
    i2s = range(len(rects))
    nv = 0
    for i1 in i1s:
        for i2 in i2s:
            for sub in subs:
                v = pess_case(spec, m, sc, st, seed, i1, i2, sub, res, far)
                if v is not None:
                    res["violations"].append(v)
                    nv += 1
                    if nv >= 4:
                        return
    res["outcomes"].append(f"C11:{cones.name(spec)}:{sc}:{st}:{far}:{res['counters'].get('pess_holds', 0)}")
    res["samples"].append({"kind": "pess", "cone": cones.name(spec), "scale": sc, "rect_pairs": len(rects) ** 2, "subshifts": list(subs)})


# ---------------------------------------------------------------------------------------------


def run_unit(unit):
    res = core.new_result()
    if unit[0] == "rect":
        run_rect(unit, res)
    elif unit[0] == "ell":
        run_ell(unit, res)
    elif unit[0] == "ell3":
        run_ell3(unit, res)
    elif unit[0] == "errors":
        run_errors(unit[1], res)
    elif unit[0] == "ellseq":
        run_ellseq(unit, res)
    elif unit[0] == "pess":
        run_pess(unit, res)
    return res


def _spec(s):
    return tuple(tuple(tuple(r) for r in x) if isinstance(x, list) else x for x in s)


def replay_case(case):
    core.import_vopy()
    res = core.new_result()
    v = None
    if case["mode"] == "rect":
        v = rect_case(case["prop"], _spec(case["spec"]), case["m"], case["sc"], case["st"], case["seed"], case["i1"], case["i2"],
                      case["slack"], res, case["n_lat"], case.get("far", 0))
    elif case["mode"] == "ell":
        v = ell_case(case["prop"], _spec(case["spec"]), case["sc"], case["sh1"], case["seed"], case["r1"], case["cx"], case["cy"],
                     case["sh2"], case["r2"], case["slack"], res, cz=case.get("cz"))
    elif case["mode"] == "pess":
        v = pess_case(_spec(case["spec"]), case["m"], case["sc"], case["st"], case["seed"], case["i1"], case["i2"], case["sub"], res, case.get("far", 0))
    elif case["mode"] == "ellseq":
        u = list(case["unit"])
        u[2] = _spec(u[2])
        run_ellseq(tuple(u), res, only=[list(case["seqA"]), list(case["seqB"])])
        return res["violations"]
    elif case["mode"] == "errors":
        run_errors(case["prop"], res)
        return res["violations"]
    return [v] if v is not None else []
