"""C01 - valid confidence regions imply an eps-accurate Pareto set (PaVeBa family, Auer).
Explicit-state reachability over the real run_one_step(); see checks/reach.py."""
import numpy as np

from checks import reach
from vmc import cones, core

PROPERTY = "C01"
LEVEL = "model_checking"
RULE = ("reachable (S,P,U,round,frozen regions,deviation budget) states of PaVeBa / PaVeBaGP(IH,DE) / PaVeBaPartialGP(rect,ell) / Auer "
        "under every valid posterior of a finite menu (3 rectangle shapes x 9 offsets, 4 ellipsoid shapes x 5 offsets; 0.9 of the half-extent; "
        "widths 2u*2^(-r/2)), per truth dataset (lattice unit u=0.6 eps: ties, gaps just below/above eps) x cone; deviation-bounded (B deviating "
        "rounds, one free design or two designs from the pair sub-menu per deviating round); non-trivial = distinct terminal P per configuration")
ASSUMPTIONS = [
    "every explored edge is a valid round (asserted on the displayed regions after each step), so every path is a valid history",
    "state merging on (S,P,U,round,frozen regions of P-U,budget) is exact for stub-driven runs (active regions are rewritten before being read)",
    "bandit algorithms (PaVeBa, Auer) own their width schedule; their horizon is cut (reported) because widths shrink like sqrt(log t / t)",
    "a state-invariant failure is reported only after the default continuation has been run to termination and the terminal conclusion fails",
]

GP_ALGS = ["PaVeBaGP-IH", "PaVeBaGP-DE", "PartialGP-rect", "PartialGP-ell"]


def facet_truths(W, u):
    """K = 4, m = 3: for each facet k a difference d with facet values (+, +, +) on the others and - on facet k"""
    W = np.asarray(W, float)
    out = []
    base = np.array([-1.0, 1.0, 3.0, 1.0])
    for k in range(4):
        t = np.roll(base, k) * 1.5 * u
        d = np.linalg.lstsq(W, t, rcond=None)[0]
        if np.allclose(W @ d, t, atol=1e-9):
            out.append(np.array([[0.0, 0.0, 0.0], d.tolist()]))
    axis = np.linalg.lstsq(W, np.ones(4) * 2.0 * u, rcond=None)[0]
    out.append(np.array([[0.0, 0.0, 0.0], axis.tolist()]))
    out.append(np.zeros((2, 3)))
    return out


def units(ctx):
    us = []
    cs = [("comp", 2), ("theta", 45), ("theta", 60), ("theta", 120), ("theta", 135), ("theta", 150)]
    if ctx.thorough:
        cs += [("theta", 30), ("theta", 90), ("theta", 100), ("theta", 160), ("W", ((1, 1), (-1, 2)), "unit"), ("W", ((1, 2), (2, 1)), "unit")]
    B = 2 if ctx.thorough else 1
    for alg in GP_ALGS:
        cl = list(cs)
        if alg in ("PaVeBaGP-IH", "PartialGP-rect"):
            cl += [("W", ((1, 0), (-1, 2)), "unit")]  # a NON-symmetric square cone matrix {x1 >= 0, x2 >= x1/2}
        if alg.endswith(("DE", "ell")):
            cl += [("theta3", 135)] + ([("theta3", 60)] if ctx.thorough else [])
        for spec in cl:
            lat = reach.truths(2, 2, ctx.thorough, ctx.seed)
            tgt = reach.gap_targeted_truths(cones.W_of(spec), reach.eps_of())
            if not ctx.thorough:
                lat, tgt = lat[:5], tgt[:5]
            for k, mu in enumerate(lat + tgt):
                # two deviating rounds are ~10x dearer: thorough spends them on a slice (3 cones x every third truth)
                b = B if (B == 1 or (spec in (("comp", 2), ("theta", 60), ("theta", 135)) and k % 3 == 0)) else 1
                us.append(("reach", PROPERTY, alg, spec, 2, 2, mu, 7, b))
            k3 = reach.truths(3, 2, ctx.thorough, ctx.seed)
            if not ctx.thorough:
                k3 = k3[ctx.seed % 2 :: 2][:2] if spec in (("comp", 2), ("theta", 135), ("theta", 60)) else []
            for mu in k3:
                us.append(("reach", PROPERTY, alg, spec, 2, 3, mu, 7, 1))
        if ctx.thorough:
            for spec in (("comp", 3), ("c3d", "acute"), ("c3d", "obtuse")):
                for mu in reach.truths(2, 3, True):
                    us.append(("reach", PROPERTY, alg, spec, 3, 2, mu, 7, 1))
    # cones with more NON-REDUNDANT facets than objectives exist only from m = 3 on (ice-cream cones, K = 4): the
    # ellipsoidal variants decide per facet.  Truths: pairs whose difference is positive on three facets and negative
    # on the fourth (incomparable by that one facet only), one pair per facet, plus a dominated and a tied pair.
    for alg in ("PaVeBaGP-DE", "PartialGP-ell") + (("PaVeBaGP-IH",) if ctx.thorough else ()):
        for spec in ([("ice", 60, 4)] + ([("ice", 30, 4)] if ctx.thorough else [])):
            for mu in facet_truths(cones.W_of(spec), reach.U_UNIT):
                us.append(("reach", PROPERTY, alg, spec, 3, 2, mu, 7, 1))
    # bandit algorithms
    bc = [("comp", 2), ("theta", 60), ("theta", 135)] + ([("theta", 45), ("theta", 120), ("theta", 150)] if ctx.thorough else [])
    for spec in bc:
        for mu in reach.truths(2, 2, ctx.thorough, ctx.seed)[: (12 if ctx.thorough else 4)]:
            us.append(("reach", PROPERTY, "PaVeBa", spec, 2, 2, mu, 24 if ctx.thorough else 8, 1))
    for mu in reach.truths(2, 2, True):
        us.append(("reach", PROPERTY, "Auer", None, 2, 2, mu, 120 if ctx.thorough else 60, 2 if ctx.thorough else 1))
    for mu in reach.truths(3, 2, True)[: (10 if ctx.thorough else 4)]:
        us.append(("reach", PROPERTY, "Auer", None, 2, 3, mu, 120 if ctx.thorough else 40, 1))
    # model-guided search (checks/modelreach.py): the reference model explored with the FULL menus to a deeper
    # deviation bound, bound to the code by replaying its traces on the real run_one_step()
    for alg in ("PaVeBaGP-IH", "PartialGP-rect"):
        for spec in [c for c in cs if cones.W_of(c).shape == (2, 2)] + [("W", ((1, 0), (-1, 2)), "unit")]:
            W_ = cones.W_of(spec)
            for mu in reach.truths(2, 2, True) + reach.gap_targeted_truths(W_, reach.eps_of()):
                us.append(("mreach", PROPERTY, alg, spec, 2, 2, mu, 7, 3 if ctx.thorough else 2))
            for mu in reach.truths(3, 2, True)[: (10 if ctx.thorough else 5)]:
                us.append(("mreach", PROPERTY, alg, spec, 2, 3, mu, 7, 2 if ctx.thorough else 1))
    # model-guided, ellipsoidal variants and the bandit PaVeBa (run to termination in the model: horizon 150 rounds)
    for alg in ("PaVeBaGP-DE", "PartialGP-ell"):
        for spec in [("comp", 2), ("theta", 60), ("theta", 135), ("theta3", 135)]:
            for mu in reach.truths(2, 2, True)[: (12 if ctx.thorough else 6)]:
                us.append(("mreach", PROPERTY, alg, spec, 2, 2, mu, 7, 2 if ctx.thorough else 1))
    for spec in [("comp", 2), ("theta", 60), ("theta", 135), ("theta3", 135)]:
        for mu in reach.truths(2, 2, True)[: (12 if ctx.thorough else 6)]:
            us.append(("mreach", PROPERTY, "PaVeBa", spec, 2, 2, mu, 150, 2 if ctx.thorough else 1))
        for mu in reach.truths(3, 2, True)[: (6 if ctx.thorough else 2)]:
            us.append(("mreach", PROPERTY, "PaVeBa", spec, 2, 3, mu, 150, 1))
    # real models, GP-generated histories (scripted observation offsets), contraction chosen so that runs end in a few dozen rounds
    for alg in ("PaVeBaGP-IH", "PaVeBaGP-DE", "PartialGP-rect", "PartialGP-ell", "PaVeBa", "Auer"):
        specs = [None] if alg == "Auer" else [("comp", 2), ("theta", 60), ("theta", 120)]
        for spec in specs:
            for seed in ((ctx.seed, ctx.seed + 1) if ctx.thorough else (ctx.seed,)):
                us.append(("realreach", PROPERTY, alg, spec, 4, {"contraction": 4.0, "max_rounds": 60}, 3 if ctx.thorough else 2, seed))
    # heavy units first (better balance)
    us.sort(key=lambda u: (0 if u[0] == "realreach" else 1, 0 if u[5] == 3 else 1, 0 if u[2].endswith(("DE", "ell")) else 1, 0 if u[0] == "mreach" else 1))
    return us


def run_unit(unit):
    if unit[0] == "mreach":
        from checks import modelreach
        res = core.new_result()
        modelreach.run_mreach(unit, res)
        return res
    if unit[0] == "realreach":
        res = core.new_result()
        reach.run_real_reach(unit, res)
        return res
    return reach.run_unit(unit)


def replay_case(case):
    if case.get("mode") == "mreach":
        from checks import modelreach
        return modelreach.replay_case(case)
    if case.get("mode") == "realreach":
        res = core.new_result()
        u = list(case["unit"])
        u[3] = reach._fix_spec(u[3])
        reach.run_real_reach(tuple(u), res, replay=case["path"])
        return res["violations"]
    return reach.replay_case(case)


def finish(ctx, merged):
    outs = merged["outcomes"]
    # vacuity guard: terminal outcomes must differ between configurations and include both
    # "everything in P" and "a design left out"
    term = set(o.split("|")[-1] for o in outs)
    if len(term) < 3:
        return {"harness_error": f"vacuous: only {len(term)} distinct terminal outcomes"}
    return {"distinct_terminal_outcomes": len(term)}
