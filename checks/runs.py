"""Whole-run exploration shared by C06 (monotone / clean termination / no crash / accounting) and
C07 (samples go to the acquisition maximiser among active designs and reach the model).

Flavour A (deep): the reach.Explorer BFS over the real run_one_step() with a stub posterior and a
recording problem proxy, with per-transition hooks.  Flavour B (real pipeline): real models,
scripted observation menus explored exhaustively to a small depth, and a fixed-generator noisy run.
Flavour C (C07): exhaustive value tables for the two discrete optimisers.
"""
import copy
import itertools

import numpy as np

from checks import reach
from vmc import cones, core, seams, stepmc

WFAC = [1.0, 1.12, 0.9, 1.05, 0.95]  # per-design width factors: unique acquisition maximisers


def _viol(prop, kind, alg, case, want, got, msg, extra=None):
    key = {"kind": kind, "alg": alg}
    if extra:
        key.update(extra)
    return core.violation(prop, key, case, want, got, msg)


# ---------------------------------------------------------------------------------------------
# flavour A: stub-driven reachability with hooks


def _case(ex, extra=None):
    c = {"mode": "stubrun", "prop": ex.prop, "alg": ex.alg_name, "spec": ex.spec, "m": ex.m, "K": ex.K, "mu": ex.mu.tolist(),
         "horizon": ex.horizon, "budget": ex.budget, "path": list(getattr(ex, "cur_path", [])), "cfg": ex.cfg}
    if extra:
        c.update(extra)
    return c


def _requested(alg):
    """rows requested from the problem in this step: list of (design index, eval index or None, value)"""
    rows = []
    pts = alg.design_space.points
    for call in alg.problem.calls:
        X = np.atleast_2d(call["x"])
        idxs = call["args"][0] if call["args"] else None
        out = np.asarray(call["out"])
        for r, x in enumerate(X):
            d = np.max(np.abs(pts[:, : X.shape[1]] - x), axis=1)
            k = int(np.argmin(d))
            if d[k] > 1e-9:
                k = -1
            ei = None
            if idxs is not None:
                ei = int(idxs) if np.ndim(idxs) == 0 else int(np.asarray(idxs)[r])
            rows.append((k, ei, out[r] if out.ndim > 0 and len(out) == len(X) else out))
    return rows


def hook(ex, st, ev, alg, pre, done, targets):
    prop = ex.prop
    name = ex.alg_name
    fam = ex.fam
    post = stepmc.snapshot(alg)
    S0, P0, U0 = set(pre["S"]), set(pre["P"]), set(pre["U"])
    S1, P1, U1 = set(post["S"]), set(post["P"]), set(post["U"])
    rows = _requested(alg)
    bs = ex.cfg.get("batch_size", 1)
    costs = ex.cfg.get("costs")
    cost_budget = ex.cfg.get("cost_budget")

    def add(kind, want, got, msg):
        ex.violations.append(_viol(prop, kind, name, _case(ex), want, got,
                                   f"{name} cone={cones.name(ex.spec) if ex.spec else 'orthant'} batch={bs} costs={costs} budget={cost_budget}: {msg} "
                                   f"[S {sorted(S0)}->{sorted(S1)} P {sorted(P0)}->{sorted(P1)} U {sorted(U0)}->{sorted(U1)} path={getattr(ex, 'cur_path', None)}]"))

    if cost_budget is not None and pre.get("total_cost", 0.0) >= cost_budget:
        # the run had already completed (budget reached): this step must be a no-op reporting completion
        if prop == "C06" and (done is not True or post != pre or rows):
            add("post-completion-change", "nothing changes", {"ret": done}, "a step after the budget was reached changed state / took samples / did not report completion")
        return
    if prop == "C06":
        if not S1 <= S0:
            add("S-grows", "S shrinks", sorted(S1 - S0), "a design (re)entered S")
        if not P0 <= P1:
            add("P-shrinks", "P grows", sorted(P0 - P1), "a design left P")
        if S1 & P1:
            add("S-P-overlap", "disjoint", sorted(S1 & P1), "S and P overlap")
        if not U1 <= P1:
            add("U-not-in-P", "U subset of P", sorted(U1 - P1), "a useful design is not a member of P")
        if post["round"] != pre["round"] + 1:
            add("round-step", pre["round"] + 1, post["round"], "round counter did not advance by exactly one on an active step")
        tc = post.get("total_cost", 0.0)
        want_done = (len(S1) == 0) or (cost_budget is not None and tc >= cost_budget)
        if bool(done) != want_done:
            add("completion-flag", want_done, bool(done), "completion reported wrongly")
        n_rows = len(rows)
        if post["sample_count"] - pre["sample_count"] != n_rows:
            add("sample-count", n_rows, post["sample_count"] - pre["sample_count"], "sample_count does not equal the evaluations requested from the problem")
        if costs is not None and hasattr(alg, "total_cost"):
            want_cost = float(sum(costs[r[1]] for r in rows if r[1] is not None))
            if abs((post["total_cost"] - pre["total_cost"]) - want_cost) > 1e-9:
                add("total-cost", want_cost, post["total_cost"] - pre["total_cost"], "total_cost does not equal the summed per-objective costs requested")
        core.bump(ex.res, "c06_transitions_checked")
    if prop == "C07":
        check_acquisition(ex, alg, pre, post, rows, add)
    # post-completion: two more steps change nothing, take no samples
    if prop == "C06" and done:
        ncalls = len(alg.problem.calls)
        nadd = len(alg.model.added)
        snap = stepmc.snapshot(alg)
        for _ in range(2):
            try:
                r = alg.run_one_step()
            except Exception as e:
                add("post-completion-raised", "no error", repr(e)[:200], "a step after completion raised")
                break
            if r is not True or stepmc.snapshot(alg) != snap or len(alg.problem.calls) != ncalls or len(alg.model.added) != nadd:
                add("post-completion-change", "nothing changes", {"ret": r, "state": {k: (sorted(v) if isinstance(v, frozenset) else v) for k, v in stepmc.snapshot(alg).items()}},
                    "a step after completion changed state / took samples / did not report completion")
                break
        core.bump(ex.res, "c06_post_completion_checked")


def check_acquisition(ex, alg, pre, post, rows, add):
    name = ex.alg_name
    fam = ex.fam
    S0, P0, U0 = set(pre["S"]), set(pre["P"]), set(pre["U"])
    S1, P1 = set(post["S"]), set(post["P"])
    bs = ex.cfg.get("batch_size", 1)
    costs = ex.cfg.get("costs")
    stub = alg.model
    if fam == "paveba":
        active = S0 | U0
    elif fam == "vogp":
        active = (S1 | P1) if S1 else set()
    else:
        active = S0
    designs = [r[0] for r in rows]
    if any(d < 0 or d not in active for d in designs):
        add("inactive-design-sampled", sorted(active), designs, "an observation was requested for a design that is not active")
        return
    # model received exactly the returned observations
    got_added = stub.added
    n_added = sum(len(np.atleast_2d(a[0])) if not isinstance(a[0], list) else len(a[0]) for a in got_added)
    if n_added != len(rows):
        add("model-data-count", len(rows), n_added, "the model did not receive exactly the observations that were returned")
        return
    k = 0
    for a in got_added:
        first = a[0]
        ys = np.asarray(a[1])
        n = len(first)
        for r in range(n):
            d, ei, val = rows[k]
            y = ys[r]
            if not np.allclose(np.asarray(y, float), np.asarray(val, float), atol=0, rtol=0):
                add("model-data-value", np.asarray(val).tolist(), np.asarray(y).tolist(), "observation handed to the model differs from what the problem returned")
                return
            if isinstance(first, list):  # PaVeBa / Auer: index sets
                if int(first[r]) != d:
                    add("model-data-pairing", d, int(first[r]), "observation paired with the wrong design")
                    return
            else:
                x = np.atleast_2d(first)[r]
                pts = alg.design_space.points
                if np.max(np.abs(pts[d, : len(x)] - x)) > 1e-9:
                    add("model-data-pairing", d, x.tolist(), "observation paired with the wrong design")
                    return
            if len(a) > 2 and ei is not None:
                if int(np.asarray(a[2]).reshape(-1)[r]) != ei:
                    add("model-data-objective", ei, int(np.asarray(a[2]).reshape(-1)[r]), "observation stored under the wrong objective")
                    return
            k += 1
    core.bump(ex.res, "c07_evaluations_checked", len(rows))
    if name in ("PaVeBa", "Auer"):
        if sorted(designs) != sorted(active):
            add("not-every-active-once", sorted(active), sorted(designs), "bandit algorithm did not sample every active design exactly once")
        return
    if not active:
        if rows:
            add("sampled-with-empty-S", [], designs, "samples taken although no candidates remain")
        return
    # acquisition values from the pre-step / decision-time state
    if fam == "vogp":
        regs = stepmc.read_regions(alg, sorted(active))
        val = {(i, None): float(np.linalg.norm(regs[i][2] - regs[i][1])) for i in active}
    elif name.startswith("PaVeBaGP"):
        val = {(i, None): float(np.trace(stub.cov[i])) for i in active}
    else:  # PartialGP
        val = {}
        for i in active:
            for o in range(ex.m):
                v = float(stub.cov[i][o, o])
                if costs is not None:
                    v = v / costs[o]
                val[(i, o)] = v
    chosen = [(r[0], r[1]) for r in rows]
    if len(set(chosen)) != len(chosen):
        add("batch-not-distinct", "distinct choices", chosen, "a batch contains the same choice twice")
        return
    if len(chosen) != min(bs, len(val)) and len(chosen) != bs:
        add("batch-size", min(bs, len(val)), len(chosen), "batch has the wrong number of choices")
        return
    tol = 1e-12
    vals = [val[c] for c in chosen]
    if any(vals[i] < vals[i + 1] - tol for i in range(len(vals) - 1)):
        add("batch-order", "non-increasing", vals, "batch is not in non-increasing acquisition order")
        return
    left = dict(val)
    for c in chosen:
        best = max(left.values())
        if left[c] < best - tol * max(1.0, abs(best)):
            add("not-acquisition-maximiser", best, left[c], f"choice {c} (value {left[c]:.6g}) is not a maximiser among what was left (max {best:.6g})")
            return
        del left[c]
        if fam != "paveba" or name.startswith("PaVeBaGP"):
            pass
    core.bump(ex.res, "c07_argmax_checked")


def on_crash(ex, st, ev, alg, pre, e):
    name = ex.alg_name
    W = np.eye(ex.m) if ex.spec is None else cones.W_of(ex.spec)
    Kf, m = W.shape
    bs = ex.cfg.get("batch_size", 1)
    kind = "step-raised"
    active = len(set(pre["S"]) | set(pre["U"]) | (set(pre["P"]) if ex.fam == "vogp" else set()))
    extra = {"exc": type(e).__name__}
    if Kf != m and ex.kind == "rect" and ex.fam == "paveba" and "Slackness must be" in str(e):
        kind = "rect-paveba-K-ne-m"
    elif bs > 1 and "empty sequence" in str(e):
        kind = "batch-exceeds-choices"
    ex.violations.append(_viol("C06" if ex.prop == "C06" else ex.prop, kind, name, _case(ex), "step completes", repr(e)[:200],
                               f"{name} cone={cones.name(ex.spec) if ex.spec else 'orthant'} batch={bs} active={active}: run_one_step raised {e!r} "
                               f"from S={sorted(pre['S'])} P={sorted(pre['P'])} U={sorted(pre['U'])}", extra))


class RunExplorer(reach.Explorer):
    def __init__(self, prop, alg_name, spec, m, K, mu, horizon, budget, res, cfg):
        self.cfg = cfg
        contraction = None
        if alg_name in ("PaVeBa", "Auer"):
            probe = stepmc.build_template(alg_name, spec, K, m, reach.eps_of(), contraction=1.0, noise_var=1.0, delta=0.5)
            probe.round = 1
            w1 = float(probe.compute_radius()) if alg_name == "PaVeBa" else float(np.asarray(probe.compute_beta()).reshape(-1)[0])
            contraction = w1 / (2 * reach.U_UNIT)
        super().__init__(prop, alg_name, spec, m, K, mu, horizon, budget, res, contraction=contraction)
        kw = {}
        if self.bandit:
            kw = {"contraction": contraction or 1.0, "noise_var": 1.0, "delta": 0.5}
        if not self.bandit:
            kw["batch_size"] = cfg.get("batch_size", 1)
        if alg_name.startswith("PartialGP"):
            kw["costs"] = cfg.get("costs")
            kw["cost_budget"] = cfg.get("cost_budget")
        self.tmpl = stepmc.build_template(alg_name, spec, K, m, self.eps, **kw)
        self.catch = True
        self.hook = hook
        self.on_crash = lambda st, ev, alg, pre, e: on_crash(self, st, ev, alg, pre, e)
        self.wfac = WFAC[:K] if not self.bandit else None
        # smaller menu: default + a few single deviations (shape changes move the acquisition maximiser)
        if self.kind == "rect" and m == 2 and not self.bandit:
            keep = [0, 1, 5, 9, 18, 27]
        elif self.kind == "ell" and m == 2 and not self.bandit:
            keep = [0, 1, 5, 15, 20]  # centred isotropic, offset, anisotropic, CORRELATED (trace != sum of entries), collapsed
        else:
            keep = list(range(min(4, len(self.items))))
        self.items = [self.items[k] for k in keep if k < len(self.items)]
        self.pair_items = [1] if len(self.items) > 1 else []

    def events(self, st, active):
        b = self.cfg.get("cost_budget")
        if b is not None and st.get("total_cost", 0.0) >= b:
            return [dict()] if not st.get("_budget_probe") else []
        return super().events(st, active)

    def step(self, st, ev):
        st2, done, targets = super().step(st, ev)
        b = self.cfg.get("cost_budget")
        if st2 is not None and b is not None and st.get("total_cost", 0.0) >= b:
            st2["_budget_probe"] = True  # one no-op probe step after the budget was reached, then stop
            st2["S"] = set()  # treat as terminal for the search (the run is complete)
        return st2, done, targets


def stub_configs(ctx, prop):
    """(alg, spec, m, K, cfg) list"""
    out = []
    two = [("comp", 2), ("theta", 60), ("theta", 135)]
    for alg in ("PaVeBaGP-IH", "PaVeBaGP-DE", "VOGP", "EpsilonPAL"):
        specs = [None] if alg in stepmc.ORTHANT_ONLY else list(two)
        if alg in ("PaVeBaGP-DE", "VOGP"):
            specs += [("theta3", 135)]
        if alg == "PaVeBaGP-IH" and prop == "C06":
            specs += [("theta3", 135)]  # K != m with hyper-rectangles (expected finding F8)
        for spec in specs:
            for K in (2, 3):
                for bsz in ([1, 2, K, K + 1] if prop == "C06" else [1, 2, K]):
                    if ctx.thorough or (K == 2) or (spec in (None, ("comp", 2), ("theta", 135)) and bsz in (1, 2, 4)):
                        out.append((alg, spec, 2, K, {"batch_size": bsz}))
    for alg in ("PartialGP-rect", "PartialGP-ell"):
        specs = list(two) + ([("theta3", 135)] if (alg.endswith("ell") or prop == "C06") else [])
        for spec in specs:
            for K in (2, 3):
                for bsz, costs, budget in ((1, None, None), (2, [1.0, 3.0], None), (1, [1.0, 1.0], 2.0), (2, [0.5, 2.0], 4.0), (1, [2.0, 3.0], 9.0), (2 * K + 1, None, None)):
                    if prop == "C07" and bsz > 2 * K:
                        continue
                    if ctx.thorough or K == 2 or spec == ("comp", 2):
                        out.append((alg, spec, 2, K, {"batch_size": bsz, "costs": costs, "cost_budget": budget}))
    for alg in ("PaVeBa", "Auer"):
        specs = [None] if alg == "Auer" else [("comp", 2), ("theta", 135), ("theta3", 135)]
        for spec in specs:
            for K in (2, 3):
                out.append((alg, spec, 2, K, {}))
    if ctx.thorough:
        for alg in ("VOGP", "PaVeBaGP-DE", "PartialGP-ell"):
            for spec in (("c3d", "acute"), ("ice", 30, 4), ("ice", 30, 6)):
                out.append((alg, spec, 3, 2, {"batch_size": 1}))
    else:
        out.append(("VOGP", ("ice", 30, 4), 3, 2, {"batch_size": 1}))
        out.append(("PaVeBaGP-DE", ("c3d", "acute"), 3, 2, {"batch_size": 2}))
    return out


def run_stub(unit, res, replay=None):
    _, prop, alg, spec, m, K, cfg, horizon, budget, seed = unit
    core.import_vopy()
    mus = reach.truths(K, m, True)
    mu = mus[(seed + (0 if K == 2 else 1)) % len(mus)]
    if unit[0] == "stubrun_mu":
        mu = np.array(cfg["_mu"])
    ex = RunExplorer(prop, alg, spec, m, K, mu, horizon, budget, res, cfg)
    ex.run(replay_path=replay)
    res["violations"].extend(ex.violations[:4])
    res["nontrivial"] += max(1, len(ex.terminal_P))
    if len(res["samples"]) < 1:
        res["samples"].append({"alg": alg, "cone": cones.name(spec) if spec else "orthant", "K": K, "cfg": cfg, "truth": mu.tolist(),
                               "terminal_P_sets": sorted(ex.terminal_P)})
    return ex


# ---------------------------------------------------------------------------------------------
# flavour B: real models


def _tiny_dataset(K, m, seed):
    X = seams.default_inputs(K, 2) if K > 3 else seams.default_inputs(K, 1)
    base = reach.truths(K, m, True) if K <= 4 else None
    if base:
        Y = base[seed % len(base)] * 4.0
    else:
        t = np.linspace(0, 1, K)
        Y = np.stack([np.sin(3 * t) + 0.1 * t, np.cos(2 * t)], axis=1)[:, :m]
    return X, Y


REAL_ALGS = ["PaVeBa", "PaVeBaGP-IH", "PaVeBaGP-DE", "PartialGP-rect", "PartialGP-ell", "VOGP", "EpsilonPAL", "Auer", "Naive", "Decoupled"]


def build_real(alg_name, spec, K, m, cfg, seed):
    import vopy.algorithms as A
    from vopy.utils import set_seed

    set_seed(100 + seed)
    X, Y = _tiny_dataset(K, m, seed)
    eps = 0.3
    if alg_name in stepmc.ALGS:
        kw = dict(cfg)
        alg = stepmc.build_template(alg_name, spec, K, m, eps, delta=0.1, noise_var=0.01, contraction=cfg.get("contraction", 4.0), stub=False,
                                    out_data=Y, in_data=X, batch_size=kw.get("batch_size", 1), costs=kw.get("costs"), cost_budget=kw.get("cost_budget"))
    else:
        name = seams.inject_dataset(X, Y)
        order = cones.make_order(spec)
        if alg_name == "Naive":
            alg = A.NaiveElimination(eps, 0.1, name, order, 0.01, L=cfg.get("L", 3))
        else:
            alg = A.DecoupledGP(name, order, 0.01, cost_budget=cfg.get("cost_budget", 4.0), costs=cfg.get("costs", [1.0, 1.0]), batch_size=cfg.get("batch_size", 1))
        alg._verif_name = alg_name
    alg.problem = seams.RecordingProblem(alg.problem)
    return alg, eps


def model_data(alg):
    """snapshot of what the model holds"""
    mdl = getattr(alg, "model", None)
    if mdl is None:
        return ("samples", np.array(alg.samples).copy())
    if hasattr(mdl, "design_samples"):
        return ("emp", [np.array(d).copy() for d in mdl.design_samples])
    ti, tt = mdl.train_inputs, mdl.train_targets
    if isinstance(ti, list):
        return ("list", [np.array(t).copy() for t in ti], [np.array(t).copy() for t in tt])
    return ("multi", np.array(ti).copy(), np.array(tt).copy())


def check_model_growth(before, after, calls, alg, add):
    """data after = data before + exactly the (x, y, objective) triples the proxy returned"""
    kind = before[0]
    rows = []
    for c in calls:
        X = np.atleast_2d(c["x"])
        out = np.asarray(c["out"])
        idx = c["args"][0] if c["args"] else None
        for r in range(len(X)):
            ei = None if idx is None else (int(idx) if np.ndim(idx) == 0 else int(np.asarray(idx)[r]))
            rows.append((X[r], out[r], ei))
    if kind == "multi":
        nb = len(before[1])
        newX, newY = after[1][nb:], after[2][nb:]
        if not np.array_equal(after[1][:nb], before[1]) or not np.array_equal(after[2][:nb], before[2]):
            add("model-data-rewritten", "old data kept", "changed", "existing model data changed")
            return
        if len(newX) != len(rows):
            add("model-data-count", len(rows), len(newX), "the model did not receive exactly the returned observations")
            return
        for (x, y, _), gx, gy in zip(rows, newX, newY):
            if not np.allclose(x[: gx.shape[0]], gx) or not np.array_equal(np.asarray(y, float), gy):
                add("model-data-value", [x.tolist(), np.asarray(y).tolist()], [gx.tolist(), gy.tolist()], "model data differs from the returned observation")
                return
    elif kind == "list":
        want = {o: [] for o in range(len(before[1]))}
        for x, y, ei in rows:
            want[ei].append((x, float(y)))
        for o in range(len(before[1])):
            nb = len(before[1][o])
            newX, newY = after[1][o][nb:], after[2][o][nb:]
            if len(newX) != len(want[o]):
                add("model-data-objective", len(want[o]), len(newX), f"objective {o} received {len(newX)} observations, {len(want[o])} were requested for it")
                return
            for (x, y), gx, gy in zip(want[o], newX, newY):
                if not np.allclose(x[: gx.shape[0]], gx) or y != float(gy):
                    add("model-data-value", [x.tolist(), y], [gx.tolist(), float(gy)], "model data differs from the returned observation")
                    return
    elif kind == "emp":
        pts = alg.design_space.points
        want = {}
        for x, y, _ in rows:
            d = int(np.argmin(np.max(np.abs(pts[:, : len(x)] - x), axis=1)))
            want.setdefault(d, []).append(np.asarray(y, float))
        for d in range(len(before[1])):
            nb = len(before[1][d])
            new = after[1][d][nb:]
            w = want.get(d, [])
            if len(new) != len(w) or any(not np.array_equal(a, b) for a, b in zip(new, w)):
                add("model-data-value", [np.asarray(v).tolist() for v in w], np.asarray(new).tolist(), f"design {d}: stored samples differ from the returned observations")
                return
    else:
        nb = before[1].shape[1]
        new = after[1][:, nb:, :]
        if new.shape[1] != len(calls):
            add("model-data-count", len(calls), new.shape[1], "sample tensor did not grow by one slice per evaluation call")


def real_acq_check(alg, name, pre_model, pre, post, calls, cfg, add, res):
    """acquisition maximiser on the real pipeline (VOGP/ePAL: displayed diagonals; PaVeBaGP: model
    variances before the step; PartialGP: cost-weighted single-objective variances)"""
    fam = stepmc.family(name) if name in stepmc.ALGS else None
    if fam is None or not calls:
        return
    rows = []
    pts = alg.design_space.points
    for c in calls:
        X = np.atleast_2d(c["x"])
        idx = c["args"][0] if c["args"] else None
        for r in range(len(X)):
            d = int(np.argmin(np.max(np.abs(pts[:, : X.shape[1]] - X[r]), axis=1)))
            ei = None if idx is None else (int(idx) if np.ndim(idx) == 0 else int(np.asarray(idx)[r]))
            rows.append((d, ei))
    S0, P0, U0 = set(pre["S"]), set(pre["P"]), set(pre["U"])
    S1, P1 = set(post["S"]), set(post["P"])
    if fam == "paveba":
        active = S0 | U0
    elif fam == "vogp":
        active = S1 | P1
    else:
        active = S0
    if any(d not in active for d, _ in rows):
        add("inactive-design-sampled", sorted(active), rows, "an observation was requested for a design that is not active")
        return
    if name in ("PaVeBa", "Auer"):
        if sorted(d for d, _ in rows) != sorted(active):
            add("not-every-active-once", sorted(active), rows, "bandit algorithm did not sample every active design exactly once")
        return
    costs = cfg.get("costs")
    act = sorted(active)
    if fam == "vogp":
        regs = stepmc.read_regions(alg, act)
        val = {(i, None): float(np.linalg.norm(regs[i][2] - regs[i][1])) for i in act}
    else:
        _, cov = pre_model.predict(pts[act])
        if name.startswith("PaVeBaGP"):
            val = {(i, None): float(np.trace(cov[k])) for k, i in enumerate(act)}
        else:
            val = {}
            for k, i in enumerate(act):
                for o in range(cov.shape[-1]):
                    v = float(cov[k][o, o])
                    val[(i, o)] = v / costs[o] if costs is not None else v
    if len(set(rows)) != len(rows):
        add("batch-not-distinct", "distinct", rows, "a batch contains the same choice twice")
        return
    vals = [val[c] for c in rows]
    rel = 1e-9 * max(1e-12, max(abs(v) for v in val.values()))
    if any(vals[i] < vals[i + 1] - rel for i in range(len(vals) - 1)):
        add("batch-order", "non-increasing", vals, "batch is not in non-increasing acquisition order")
        return
    left = dict(val)
    for c in rows:
        best = max(left.values())
        if left[c] < best - rel:
            add("not-acquisition-maximiser", best, left[c], f"choice {c} value {left[c]:.6g} < max {best:.6g} among the active designs")
            return
        del left[c]
    core.bump(res, "c07_real_argmax_checked")


def thompson_check(alg, pre_model, rng_state, calls, cfg, add, res, spec):
    """DecoupledGP (batch 1): restore the torch generator to its pre-step state, recompute the Thompson
    entropy value table with the REAL acquisition on the pre-step model copy (it must reproduce the
    decision-time table because the same generator state drives the same posterior samples) and check
    that the requested (design, objective) pair is a maximiser of value/cost."""
    import torch
    from vopy.acquisition import ThompsonEntropyDecoupledAcquisition

    keep = torch.get_rng_state()
    torch.set_rng_state(rng_state)
    try:
        acq = ThompsonEntropyDecoupledAcquisition(pre_model, order=cones.make_order(spec), costs=np.array(cfg.get("costs", [1.0, 1.0])))
        table = []
        for o in range(pre_model.output_dim):
            acq.evaluation_index = o
            table.append(np.asarray(acq(alg.points)).copy())
        table = np.array(table).T  # (designs, objectives)
    finally:
        torch.set_rng_state(keep)
    c = calls[0]
    x = np.atleast_2d(c["x"])[0]
    d = int(np.argmin(np.max(np.abs(alg.points - x), axis=1)))
    idx = c["args"][0]
    o = int(idx) if np.ndim(idx) == 0 else int(np.asarray(idx)[0])
    best = float(table.max())
    if table[d, o] < best - 1e-12:
        add("not-acquisition-maximiser", best, float(table[d, o]),
            f"DecoupledGP requested (design {d}, objective {o}) with information gain/cost {table[d, o]:.6g}; the maximum over (design, objective) pairs is {best:.6g}")
    else:
        core.bump(res, "c07_thompson_argmax_checked")


def run_real(unit, res, replay=None):
    """real models; observation menu explored exhaustively to depth D (scripted problem), then the
    fixed-generator noisy continuation"""
    _, prop, alg_name, spec, m, K, cfg, depth, seed = unit
    core.import_vopy()
    import torch

    menu = [0.0, 0.2, -0.2]  # additive observation offsets (all objectives) replacing the noise
    paths = list(itertools.product(range(len(menu)), repeat=depth)) if depth > 0 else [()]
    if replay is not None:
        paths = [tuple(replay)]
    base, eps = build_real(alg_name, spec, K, m, cfg, seed)
    outcomes = set()
    for path in paths:
        alg = copy.deepcopy(base)
        np.random.seed(7 + seed)
        torch.manual_seed(7 + seed)
        inner = alg.problem.inner
        state = {"k": 0}

        def script(x, *a, **kw):
            k = state["k"]
            if k < len(path):
                vals = inner.evaluate(x, *a, **dict(kw, noisy=False)) if "noisy" not in kw else inner.evaluate(x, *a, **kw)
                return np.asarray(vals) + menu[path[k]]
            return inner.evaluate(x, *a, **kw)

        alg.problem.script = script
        ever_left = set()
        case = {"mode": "realrun", "prop": prop, "unit": list(unit[:8]) + [seed], "path": list(path)}
        max_rounds = cfg.get("max_rounds", 12)
        done = False
        for step_i in range(max_rounds):
            state["k"] = step_i
            pre = stepmc.snapshot(alg) if hasattr(alg, "S") else {"S": frozenset(), "P": frozenset(), "U": frozenset(), "round": alg.round, "sample_count": alg.sample_count,
                                                                 **({"total_cost": float(alg.total_cost)} if hasattr(alg, "total_cost") else {})}
            pre_data = model_data(alg)
            pre_model = copy.deepcopy(alg.model) if (prop == "C07" and hasattr(alg, "model") and alg_name.startswith(("PaVeBaGP", "PartialGP", "Decoupled"))) else None
            rng_state = torch.get_rng_state() if (prop == "C07" and alg_name == "Decoupled") else None
            alg.problem.calls = []

            def add(kind, want, got, msg, _alg=alg_name, _case=case):
                res["violations"].append(_viol(prop, kind, _alg, dict(_case, step=step_i), want, got,
                                               f"{_alg}(real model) cone={cones.name(spec) if spec else 'orthant'} cfg={cfg} step {step_i} path={list(path)}: {msg}"))

            res["evaluations"] += 1
            res["transitions"] += 1
            try:
                done = alg.run_one_step()
            except Exception as e:
                kind = "step-raised"
                W = np.eye(m) if spec is None else cones.W_of(spec)
                if W.shape[0] != W.shape[1] and alg_name in ("PaVeBaGP-IH", "PartialGP-rect") and "Slackness must be" in str(e):
                    kind = "rect-paveba-K-ne-m"
                elif cfg.get("batch_size", 1) > 1 and "empty sequence" in str(e):
                    kind = "batch-exceeds-choices"
                if prop == "C06":
                    res["violations"].append(_viol(prop, kind, alg_name, dict(case, step=step_i), "step completes", repr(e)[:200],
                                                   f"{alg_name}(real model) cfg={cfg} cone={cones.name(spec) if spec else 'orthant'}: run_one_step raised {e!r} at step {step_i}",
                                                   {"exc": type(e).__name__}))
                break
            post = stepmc.snapshot(alg) if hasattr(alg, "S") else {"S": frozenset(), "P": frozenset(), "U": frozenset(), "round": alg.round, "sample_count": alg.sample_count,
                                                                  **({"total_cost": float(alg.total_cost)} if hasattr(alg, "total_cost") else {})}
            calls = list(alg.problem.calls)
            n_rows = sum(len(np.atleast_2d(c["x"])) for c in calls)
            if prop == "C06":
                S0, P0, S1, P1 = set(pre["S"]), set(pre["P"]), set(post["S"]), set(post["P"])
                if hasattr(alg, "S"):
                    if not S1 <= S0:
                        add("S-grows", "S shrinks", sorted(S1 - S0), "a design (re)entered S")
                    if not P0 <= P1:
                        add("P-shrinks", "P grows", sorted(P0 - P1), "a design left P")
                    if S1 & P1:
                        add("S-P-overlap", "disjoint", sorted(S1 & P1), "S and P overlap")
                    if not set(post["U"]) <= P1:
                        add("U-not-in-P", "subset", sorted(set(post["U"]) - P1), "useful design outside P")
                    ever_left |= (S0 - S1)
                    if ever_left & S1:
                        add("returned-to-S", "never", sorted(ever_left & S1), "a design that left S is in S again")
                if post["round"] != pre["round"] + 1:
                    add("round-step", pre["round"] + 1, post["round"], "round counter did not advance by one")
                if post["sample_count"] - pre["sample_count"] != n_rows:
                    add("sample-count", n_rows, post["sample_count"] - pre["sample_count"], "sample_count differs from the evaluations requested")
                costs = cfg.get("costs")
                if costs is not None and "total_cost" in post:
                    wc = 0.0
                    for c in calls:
                        idx = c["args"][0] if c["args"] else None
                        if idx is not None:
                            wc += float(np.sum(np.asarray(costs)[np.atleast_1d(idx)]))
                    if abs((post["total_cost"] - pre["total_cost"]) - wc) > 1e-9:
                        add("total-cost", wc, post["total_cost"] - pre["total_cost"], "total_cost differs from the summed requested costs")
                if alg_name == "Naive":
                    want_done = alg.round == alg.L
                elif alg_name == "Decoupled":
                    want_done = alg.total_cost >= alg.cost_budget
                else:
                    budget = cfg.get("cost_budget")
                    want_done = len(post["S"]) == 0 or (budget is not None and post.get("total_cost", 0.0) >= budget)
                if bool(done) != bool(want_done):
                    add("completion-flag", bool(want_done), bool(done), "completion reported wrongly")
            else:
                check_model_growth(pre_data, model_data(alg), calls, alg, add)
                real_acq_check(alg, alg_name, pre_model, pre, post, calls, cfg, add, res)
                if alg_name == "Decoupled" and cfg.get("batch_size", 1) == 1 and calls:
                    thompson_check(alg, pre_model, rng_state, calls, cfg, add, res, spec)
                core.bump(res, "c07_real_steps_checked")
            if done:
                break
            if len(res["violations"]) >= 3:
                return
        if done and prop == "C06":
            snap = (stepmc.snapshot(alg) if hasattr(alg, "S") else (alg.round, alg.sample_count, getattr(alg, "total_cost", None)))
            data = model_data(alg)
            alg.problem.calls = []
            for _ in range(2):
                try:
                    r = alg.run_one_step()
                except Exception as e:
                    res["violations"].append(_viol(prop, "post-completion-raised", alg_name, case, "no error", repr(e)[:200], f"{alg_name}: step after completion raised {e!r}"))
                    break
                snap2 = (stepmc.snapshot(alg) if hasattr(alg, "S") else (alg.round, alg.sample_count, getattr(alg, "total_cost", None)))
                d2 = model_data(alg)
                same_data = all(np.array_equal(a, b) if not isinstance(a, list) else all(np.array_equal(x, y) for x, y in zip(a, b)) for a, b in zip(data[1:], d2[1:]))
                if r is not True or snap2 != snap or alg.problem.calls or not same_data:
                    res["violations"].append(_viol(prop, "post-completion-change", alg_name, case, "nothing changes", {"ret": r},
                                                   f"{alg_name}(real model) cfg={cfg}: a step after completion changed state or took samples"))
                    break
            core.bump(res, "c06_real_post_completion_checked")
        Pf = alg.P
        Pf = Pf.tolist() if hasattr(Pf, "tolist") else list(Pf)
        outcomes.add((bool(done), tuple(sorted(int(x) for x in Pf))))
    res["states"] += len(paths)
    res["nontrivial"] += len(outcomes)
    res["outcomes"].append(f"real|{alg_name}|{cones.name(spec) if spec else 'orth'}|{sorted(outcomes)}")
    res["samples"].append({"flavour": "real-model", "alg": alg_name, "cone": cones.name(spec) if spec else "orthant", "cfg": cfg, "observation_paths": len(paths)})


def real_configs(ctx, prop):
    out = []
    for alg in REAL_ALGS:
        orth = alg in ("EpsilonPAL", "Auer")
        specs = [None] if orth else [("comp", 2), ("theta", 120)]
        if alg in ("PaVeBaGP-DE", "PartialGP-ell", "VOGP", "PaVeBa", "Decoupled") or (prop == "C06" and alg in ("PaVeBaGP-IH", "PartialGP-rect")):
            specs.append(("theta3", 135))
        if alg == "Naive":
            specs = [("theta", 60), ("theta", 120)]
        for spec in specs:
            cfgs = [{}]
            if alg in ("PaVeBaGP-IH", "PaVeBaGP-DE", "VOGP", "EpsilonPAL"):
                cfgs = [{"batch_size": 1}, {"batch_size": 2}] + ([{"batch_size": 5}] if prop == "C06" else [])
            if alg.startswith("PartialGP"):
                cfgs = [{"batch_size": 1}, {"batch_size": 2, "costs": [0.5, 2.0]}, {"batch_size": 1, "costs": [2.0, 3.0], "cost_budget": 9.0}]
            if alg == "Decoupled":
                cfgs = [{"batch_size": 1, "costs": [1.0, 1.0], "cost_budget": 3.0}, {"batch_size": 2, "costs": [0.5, 2.0], "cost_budget": 4.0}]
            if alg == "Naive":
                cfgs = [{"L": 1}, {"L": 3}]
            for cfg in cfgs:
                depth = 2 if (ctx.thorough and alg not in ("Decoupled",)) else 1
                out.append((alg, spec, 2, 4, cfg, depth))
    return out


# ---------------------------------------------------------------------------------------------
# flavour C: exhaustive value tables for the discrete optimisers (C07)


class _TableAcq:
    """acquisition whose value for a choice row is looked up by the row's id column"""

    def __init__(self, table):
        self.table = np.asarray(table, float)
        self.calls = 0

    def __call__(self, x):
        self.calls += 1
        ids = np.asarray(x)[:, 0].astype(int)
        return self.table[ids]


class _DecTableAcq:
    def __init__(self, table, costs=None):
        self.table = np.asarray(table, float)  # (n, m)
        self.out_dim = self.table.shape[1]
        self.evaluation_index = None
        self.costs = costs

    def __call__(self, x):
        ids = np.asarray(x)[:, 0].astype(int)
        v = self.table[ids, self.evaluation_index]
        if self.costs is not None:
            v = v / self.costs[self.evaluation_index]
        return v


def run_opt_tables(unit, res):
    _, prop, n, thorough = unit
    core.import_vopy()
    from vopy.acquisition import optimize_acqf_discrete, optimize_decoupled_acqf_discrete

    choices = np.stack([np.arange(n), 10.0 + np.arange(n)], axis=1).astype(float)
    # value alphabets: order-one values, the same scaled to 1e-9 (variances / cost-weighted variances are often tiny:
    # nothing may be "numerically tied" by an absolute tolerance) and near-ties (relative difference 1e-6)
    alphabets = [(0.0, 1.0, 2.0), (0.0, 1e-9, 2e-9)] + ([(1.0, 1.0 + 1e-6, 2.0)] if n <= 4 else [])
    for table in itertools.chain.from_iterable(itertools.product(a, repeat=n) for a in alphabets):
        for q in range(1, n + 1):
            res["evaluations"] += 1
            res["nontrivial"] += 1
            case = {"mode": "opt", "n": n, "table": list(table), "q": q}
            try:
                cand, vals = optimize_acqf_discrete(_TableAcq(table), q, choices.copy())
            except Exception as e:
                res["violations"].append(_viol(prop, "optimiser-raised", "optimize_acqf_discrete", case, "returns", repr(e)[:200], f"optimize_acqf_discrete raised {e!r} for table {table} q={q}"))
                return
            ids = [int(c[0]) for c in np.atleast_2d(cand)]
            ok = len(ids) == q and len(set(ids)) == q and np.array_equal(np.asarray(vals, float), np.array([table[i] for i in ids]))
            left = dict(enumerate(table))
            for i in ids:
                if not ok:
                    break
                if left[i] < max(left.values()):
                    ok = False
                del left[i]
            if ok and any(vals[k] < vals[k + 1] for k in range(len(vals) - 1)):
                ok = False
            if not ok:
                res["violations"].append(_viol(prop, "optimiser-wrong-batch", "optimize_acqf_discrete", case, "distinct maximisers in non-increasing order",
                                               {"ids": ids, "vals": np.asarray(vals).tolist()}, f"optimize_acqf_discrete table={table} q={q} returned ids {ids} values {np.asarray(vals).tolist()}"))
                return
    # decoupled optimiser: every n x m table over {0,1,2}, with and without costs
    for nd, md in (((3, 2), (3, 3)) if n == 3 else ()):
        for flat in itertools.product((0.0, 1.0, 2.0), repeat=nd * md):
            table = np.array(flat).reshape(nd, md)
            for costs in (None, np.array([1.0, 2.0, 4.0][:md])):
                for q in range(1, nd + 2):  # up to one more than the number of designs (more pairs than designs exist)
                    res["evaluations"] += 1
                    case = {"mode": "optdec", "table": table.tolist(), "costs": None if costs is None else costs.tolist(), "q": q}
                    ch = np.stack([np.arange(nd), 10.0 + np.arange(nd)], axis=1).astype(float)
                    acq = _DecTableAcq(table, costs)
                    try:
                        cand, vals, eidx = optimize_decoupled_acqf_discrete(acq, q, ch)
                    except Exception as e:
                        res["violations"].append(_viol(prop, "optimiser-raised", "optimize_decoupled_acqf_discrete", case, "returns", repr(e)[:200], f"decoupled optimiser raised {e!r}"))
                        return
                    eff = table / (costs[None, :] if costs is not None else 1.0)
                    pairs = [(int(c[0]), int(e)) for c, e in zip(np.atleast_2d(cand), eidx)]
                    ok = len(pairs) == q and len(set(pairs)) == q and np.allclose(vals, [eff[p] for p in pairs])
                    left = {(i, o): eff[i, o] for i in range(nd) for o in range(md)}
                    for p in pairs:
                        if not ok:
                            break
                        if left[p] < max(left.values()) - 1e-12:
                            ok = False
                        del left[p]
                    if ok and any(vals[k] < vals[k + 1] - 1e-12 for k in range(len(vals) - 1)):
                        ok = False
                    if acq.evaluation_index is not None:
                        ok = False  # saved evaluation index must be restored
                    if not ok:
                        res["violations"].append(_viol(prop, "optimiser-wrong-batch", "optimize_decoupled_acqf_discrete", case, "distinct (design,objective) maximisers, non-increasing",
                                                       {"pairs": pairs, "vals": np.asarray(vals).tolist()}, f"decoupled optimiser table={table.tolist()} costs={case['costs']} q={q} -> {pairs} {np.asarray(vals).tolist()}"))
                        return
    res["samples"].append({"flavour": "optimiser-tables", "n": n, "tables": 3 ** n})
    res["outcomes"].append(f"opt{n}")


# ---------------------------------------------------------------------------------------------
# wide index sets: K = 12 designs, every active subset of size <= 3 of {1,3,8,9,10,11} (python set
# iteration order differs from sorted order once indices reach the hash-table size), one real step


def run_bigidx(unit, res, only=None):
    _, prop, alg_name, seed = unit
    core.import_vopy()
    K, m = 12, 2
    tmpl = stepmc.build_template(alg_name, ("comp", 2) if alg_name not in stepmc.ORTHANT_ONLY else None, K, m, 0.1, noise_var=1.0, delta=0.5,
                                 contraction=64.0 if alg_name in ("PaVeBa", "Auer") else 1.0)
    pool = [1, 3, 8, 9, 10, 11]
    subsets = [c for r in (1, 2, 3) for c in itertools.combinations(pool, r)]
    fam = stepmc.family(alg_name)
    n_unsorted = 0
    for S in subsets:
        for Pset in (set(), {0, 5}):
            if only is not None and [list(S), sorted(Pset)] != only:
                continue
            alg = copy.deepcopy(tmpl)
            U = set(Pset) if fam == "paveba" else set()
            stepmc.inject(alg, set(S), set(Pset), U, rnd=2)
            # incomparable truths far apart and tiny regions: nothing is eliminated, everything stays identifiable
            for i in range(K):
                alg.model.mean[i] = np.array([float(i), float(K - i)])
                alg.model.cov[i] = np.eye(m) * 1e-6
            # scripted observations that identify the design they belong to
            inner = alg.problem.inner
            pts = alg.design_space.points

            def script(x, *a, **kw):
                x = np.atleast_2d(x)
                idx = [int(np.argmin(np.max(np.abs(pts[:, : x.shape[1]] - r), axis=1))) for r in x]
                return np.array([[100.0 + i, 200.0 + i] for i in idx])

            alg.problem.script = script
            active = set(S) | U if fam == "paveba" else set(S)
            if list(active) != sorted(active):
                n_unsorted += 1
            res["evaluations"] += 1
            res["transitions"] += 1
            case = {"mode": "bigidx", "unit": list(unit), "S": list(S), "P": sorted(Pset)}
            try:
                alg.run_one_step()
            except Exception as e:
                res["violations"].append(_viol(prop, "step-raised", alg_name, case, "completes", repr(e)[:160], f"{alg_name} K=12 S={S}: run_one_step raised {e!r}"))
                return
            rows = _requested(alg)
            want = sorted(active)
            got = sorted(r[0] for r in rows)
            if got != want:
                res["violations"].append(_viol(prop, "not-every-active-once", alg_name, case, want, got, f"{alg_name} K=12 active={want}: requested designs {got}"))
                return
            # what the model was handed: (index list in the order it will be zipped, observations)
            for a in alg.model.added:
                idxs, ys = a[0], np.asarray(a[1])
                for r, i in enumerate(idxs):
                    i = int(i)
                    if not np.array_equal(ys[r], np.array([100.0 + i, 200.0 + i])):
                        res["violations"].append(_viol(prop, "model-data-pairing", alg_name, case, [100.0 + i, 200.0 + i], ys[r].tolist(),
                                                       f"{alg_name} K=12 active set {list(active)} (iteration order) : the observation stored for design {i} is {ys[r].tolist()}, which belongs to design {int(ys[r][0] - 100)}"))
                        return
            res["nontrivial"] += 1
            core.bump(res, "c07_bigidx_checked")
    core.bump(res, "c07_bigidx_unsorted_iteration_orders", n_unsorted)
    res["states"] += len(subsets) * 2
    res["outcomes"].append(f"bigidx:{alg_name}:{n_unsorted}")
    res["samples"].append({"flavour": "wide index sets", "alg": alg_name, "K": K, "active_subsets": len(subsets), "with_unsorted_set_order": n_unsorted})


# ---------------------------------------------------------------------------------------------
# VOGP_AD (ninth algorithm): reuse the C18 explorer with C06 / C07 transition checks


def ad_extra_check(prop, res):
    def check(before, alg, done, calls, bad):
        S0, P0, S1, P1 = set(before.S), set(before.P), set(alg.S), set(alg.P)
        ds0, ds1 = before.design_space, alg.design_space
        n0, n1 = len(ds0.points), len(ds1.points)
        new_nodes = set(range(n0, n1))
        n_rows = sum(len(np.atleast_2d(c["x"])) for c in calls)
        if prop == "C06":
            if S1 & P1:
                return bad("S-P-overlap", "disjoint", sorted(S1 & P1), "S and P overlap")
            if not (S1 - new_nodes) <= S0:
                return bad("S-grows", "S shrinks up to refinement", sorted((S1 - new_nodes) - S0), "an old node (re)entered S")
            if not (P0 - P1) <= {i for i in P0 if i not in P1 and n1 > n0}:
                return bad("P-shrinks", "P grows up to refinement", sorted(P0 - P1), "a node left P")
            if (P0 - P1) and not new_nodes:
                return bad("P-shrinks", "P grows up to refinement", sorted(P0 - P1), "a node left P without being refined")
            if alg.round != before.round + 1:
                return bad("round-step", before.round + 1, alg.round, "round counter did not advance by exactly one on an active step")
            if bool(done) != (len(S1) == 0):
                return bad("completion-flag", len(S1) == 0, bool(done), "completion reported wrongly")
            if alg.sample_count - before.sample_count != n_rows:
                return bad("sample-count", n_rows, alg.sample_count - before.sample_count, "sample_count differs from the evaluations requested")
            if new_nodes and n_rows:
                return bad("refine-and-evaluate", "one of them", [sorted(new_nodes), n_rows], "a round both refined a node and took a sample")
            core.bump(res, "c06_ad_transitions_checked")
            if done:
                snap = (set(alg.S), set(alg.P), alg.round, alg.sample_count, len(alg.design_space.points))
                nc = len(alg.problem.calls)
                for _ in range(2):
                    r = alg.run_one_step()
                    if r is not True or (set(alg.S), set(alg.P), alg.round, alg.sample_count, len(alg.design_space.points)) != snap or len(alg.problem.calls) != nc:
                        return bad("post-completion-change", "nothing changes", {"ret": r}, "a step after completion changed state or took samples")
                core.bump(res, "c06_ad_post_completion_checked")
        else:
            # C07: the candidate is the active node with the largest displayed diagonal; it is refined or evaluated
            W1 = (S1 | P1) - new_nodes
            act = sorted(((S1 | P1) - new_nodes) | ((S0 | P0) - (S1 | P1)))  # active at decision time = after covering, before refine
            act = [i for i in act if i < n0]
            # active set at evaluate_refine time: S after discarding/covering united with P
            if n_rows:
                x = np.atleast_2d(calls[0]["x"])[0]
                idx = int(np.argmin(np.max(np.abs(ds1.points - x), axis=1)))
                if idx not in (S1 | P1):
                    return bad("inactive-design-sampled", sorted(S1 | P1), idx, "an observation was requested for a node that is not active")
                diag = {i: float(np.linalg.norm(ds1.confidence_regions[i].upper - ds1.confidence_regions[i].lower)) for i in (S1 | P1)}
                if diag[idx] < max(diag.values()) - 1e-12:
                    return bad("not-acquisition-maximiser", max(diag.values()), diag[idx], f"node {idx} (diagonal {diag[idx]:.6g}) was evaluated, the largest diagonal among active nodes is {max(diag.values()):.6g}")
                if len(alg.model.added) != 1 or not np.allclose(np.atleast_2d(alg.model.added[0][0])[0], x) or not np.array_equal(np.asarray(alg.model.added[0][1], float), np.asarray(calls[0]["out"], float)):
                    return bad("model-data-value", "the returned observation", "different", "the model did not receive exactly the returned observation")
                core.bump(res, "c07_ad_evaluations_checked")
            elif alg.model.added:
                return bad("model-data-count", 0, len(alg.model.added), "samples were added to the model although none was requested")
        return None
    return check


def run_adrun(unit, res, replay=None):
    from checks import c18

    _, prop, d, depth_max, which, spec, eps, horizon = unit
    core.import_vopy()
    c18.run_ad(("ad", d, depth_max, which, spec, eps, horizon), res, replay=replay, extra_check=ad_extra_check(prop, res), prop=prop)
    for v in res["violations"]:
        v["case"] = {"mode": "adrun", "unit": list(unit), "path": v["case"].get("path", [])}


# ---------------------------------------------------------------------------------------------
# units


def units(ctx, prop):
    us = []
    for alg, spec, m, K, cfg in stub_configs(ctx, prop):
        horizon = 6 if alg not in ("PaVeBa", "Auer") else (10 if alg == "PaVeBa" else 30)
        us.append(("stubrun", prop, alg, spec, m, K, cfg, horizon, 2 if (ctx.thorough and alg not in ("PaVeBa",)) else 1, ctx.seed))
    for alg, spec, m, K, cfg, depth in real_configs(ctx, prop):
        us.append(("realrun", prop, alg, spec, m, K, cfg, depth, ctx.seed))
    if prop == "C07":
        for n in (1, 2, 3, 4, 5):
            us.append(("opt", prop, n, ctx.thorough))
        for alg in ("PaVeBa", "Auer"):
            us.append(("bigidx", prop, alg, ctx.seed))
    for d, depth_max in ((1, 2), (1, 3), (2, 2)):
        for which in ("mono", "front", "wave"):
            for spec in ([("comp", 2), ("theta", 120)] if not ctx.thorough else [("comp", 2), ("theta", 60), ("theta", 120)]):
                us.append(("adrun", prop, d, depth_max, which, spec, 0.1, 40 if d == 1 else 14))
    return us


def run_unit(unit):
    res = core.new_result()
    if unit[0] == "stubrun":
        run_stub(unit, res)
    elif unit[0] == "realrun":
        run_real(unit, res)
    elif unit[0] == "opt":
        run_opt_tables(unit, res)
    elif unit[0] == "adrun":
        run_adrun(unit, res)
    elif unit[0] == "bigidx":
        run_bigidx(unit, res)
    return res


def _fix_spec(s):
    if s is None:
        return None
    return tuple(tuple(tuple(r) for r in x) if isinstance(x, list) else x for x in s)


def replay_case(case):
    res = core.new_result()
    if case["mode"] in ("opt", "optdec"):
        run_opt_tables(("opt", "C07", case.get("n", 3), False), res)
        return res["violations"]
    if case["mode"] == "bigidx":
        run_bigidx(tuple(case["unit"]), res, only=[list(case["S"]), list(case["P"])])
        return res["violations"]
    if case["mode"] == "adrun":
        u = list(case["unit"])
        u[5] = _fix_spec(u[5])
        run_adrun(tuple(u), res, replay=case["path"])
        return res["violations"]
    if case["mode"] == "stubrun":
        cfg = dict(case["cfg"], _mu=case["mu"])
        unit = ("stubrun_mu", case["prop"], case["alg"], _fix_spec(case["spec"]), case["m"], case["K"], cfg, case["horizon"], case["budget"], 0)
        run_stub(unit, res, replay=case["path"])
    else:
        u = case["unit"]
        unit = (u[0], u[1], u[2], _fix_spec(u[3]), u[4], u[5], u[6], u[7], u[8])
        run_real(unit, res, replay=case["path"])
    return res["violations"]
