"""Model-guided reachability for C01 / C05 (rectangular variants): explicit-state search of a
REFERENCE MODEL of the algorithm (the reference transitions of vmc.reference, chained), bound to the
implementation by replay.

The model is ~100x cheaper than a real step (no cvxpy), so it is explored to a deeper deviation bound
(two / three deviating rounds with the full menus) than the direct search of checks/reach.py.
Binding to the code: (i) every distinct terminal outcome the model reaches is replayed on the real
run_one_step() along the model's path - on ONE live implementation instance that executes the whole trace,
nothing re-injected between rounds - and must agree with the model's (S, P, U) after every round - a divergence is reported,
never ignored; (ii) every model path that violates the property's conclusion is replayed on the real
code and reported only if the real code violates it too.  Boundary decisions (within tau) end a
model branch (counted).
"""
import copy
import itertools

import numpy as np

from checks import reach
from vmc import cones, core, oracles, reference, stepmc

TAU_REL = 1e-6


class Model:
    def __init__(self, ex):
        self.ex = ex  # a reach.Explorer: menus, truths, widths
        self.W = ex.W
        self.fam = ex.fam
        self.eps = ex.eps
        self.alpha = ex.alpha
        if self.fam == "paveba" and ex.kind == "rect":
            # the objective-space shift whose facet values are alpha*eps (what the repaired code passes)
            self.slack = np.linalg.solve(self.W, self.alpha * self.eps)
        elif self.fam == "paveba":
            self.slack = self.alpha * self.eps  # ellipsoids: per-facet allowance
        else:
            self.slack = ex.slack
        self.boundary = 0
        self._widths = {}

    def width(self, layer):
        ex = self.ex
        if not ex.bandit:
            return ex.layer_h(layer)
        if layer not in self._widths:
            import copy

            c = copy.copy(ex.tmpl)
            c.round = layer + 1
            self._widths[layer] = float(c.compute_radius())  # the bandit algorithm's own schedule
        return self._widths[layer]

    def step(self, st, ev):
        """returns successor state or None if a decision fell within tolerance of its boundary"""
        ex = self.ex
        S, P, U = set(st["S"]), set(st["P"]), set(st["U"])
        active = (S | U) if self.fam == "paveba" else (S | P)
        h = self.width(st["layer"])
        regs = dict(st["frozen"])
        for i in active:
            regs[i] = reach.make_region(ex.kind, ex.items[ev.get(i, 0)], ex.mu[i], h)
        tau = reference.tau_of(regs, sorted(regs)) if regs else TAU_REL
        W = self.W

        def dom(i, j, slack):
            return reference.dominated3(W, regs[i], regs[j], slack, tau)

        def cov(i, j):
            return reference.covered3(W, regs[i], regs[j], self.slack, tau)

        def ex3(vals):
            return reference.exists3(vals)

        if self.fam == "paveba":
            D = set()
            for i in S:
                e = ex3(dom(i, j, 0.0) for j in active if j != i)
                if e == 0:
                    self.boundary += 1
                    return None
                if e == 1:
                    D.add(i)
            S1 = S - D
            newP = set()
            for i in S1:
                c = ex3(cov(i, j) for j in (S1 | U) if j != i)
                if c == 0:
                    self.boundary += 1
                    return None
                if c == -1:
                    newP.add(i)
            S2 = S1 - newP
            P2 = P | newP
            U2 = set()
            for p in P2:
                u = ex3(cov(s, p) for s in S2)
                if u == 0:
                    self.boundary += 1
                    return None
                if u == 1:
                    U2.add(p)
            frozen = {i: regs[i] for i in P2 - U2}
            return {"S": S2, "P": P2, "U": U2, "layer": st["layer"] + 1, "budget": st["budget"] - (1 if ev else 0), "frozen": frozen}
        # VOGP family
        W0 = active
        pess = set()
        for i in W0:
            e = ex3(reference.pess3(W, regs[j], regs[i], tau) for j in W0 if j != i)
            if e == 0:
                self.boundary += 1
                return None
            if e == -1:
                pess.add(i)
        D = set()
        for i in S - pess:
            e = ex3(dom(i, j, self.slack) for j in pess)
            if e == 0:
                self.boundary += 1
                return None
            if e == 1:
                D.add(i)
        S1 = S - D
        newP = set()
        for i in S1:
            c = ex3(cov(i, j) for j in (S1 | P) if j != i)
            if c == 0:
                self.boundary += 1
                return None
            if c == -1:
                newP.add(i)
        return {"S": S1 - newP, "P": P | newP, "U": set(), "layer": st["layer"] + 1, "budget": st["budget"] - (1 if ev else 0), "frozen": {}}


def run_mreach(unit, res, replay=None):
    _, prop, alg_name, spec, m, K, mu, horizon, budget = unit[:9]
    core.import_vopy()
    contraction = None
    if alg_name == "PaVeBa":
        probe = stepmc.build_template(alg_name, spec, K, m, reach.eps_of(), contraction=1.0, noise_var=1.0, delta=0.5)
        probe.round = 1
        contraction = float(probe.compute_radius()) / (2 * reach.U_UNIT)  # round-1 radius ~ 2u, as in checks/reach.py
    ex = reach.Explorer(prop, alg_name, spec, m, K, mu, horizon, budget, res, contraction=contraction)  # real steps are counted in res
    if ex.fam == "auer" or (ex.kind == "rect" and ex.W.shape[0] != ex.W.shape[1]):
        raise ValueError("model-guided search: PaVeBa family (rectangles need a square cone matrix) and VOGP family")
    if len(unit) > 9 and unit[9]:
        ex.items = [ex.items[k] for k in unit[9] if k < len(ex.items)]  # reduced menu (ellipsoids: the model itself is dearer)
        ex.pair_items = [k for k in range(1, len(ex.items))]
    model = Model(ex)
    st0 = {"S": set(range(K)), "P": set(), "U": set(), "layer": 0, "budget": budget, "frozen": {}}
    frontier = {ex.canon(st0): (st0, [])}
    seen = set(frontier)
    terminal = {}   # terminal (P,U) -> first path
    reps = {}       # every distinct (S,P,U) the model reaches -> first path (conformance replays)
    bad_paths = []
    n_steps = 0
    for layer in range(horizon):
        nxt = {}
        for key, (st, path) in frontier.items():
            if not st["S"]:
                continue
            active = (set(st["S"]) | set(st["U"])) if ex.fam == "paveba" else (set(st["S"]) | set(st["P"]))
            for ev in ex.events(st, active):
                st2 = model.step(st, ev)
                n_steps += 1
                if st2 is None:
                    continue
                p2 = path + [{str(k): v for k, v in ev.items()}]
                bad = ex.check_state(st2, p2)
                if bad and len(bad_paths) < 6:
                    bad_paths.append((p2, bad))
                if not st2["S"]:
                    terminal.setdefault((tuple(sorted(st2["P"])), tuple(sorted(st2["U"]))), p2)
                reps.setdefault((tuple(sorted(st2["S"])), tuple(sorted(st2["P"])), tuple(sorted(st2["U"]))), p2)
                k2 = ex.canon(st2)
                if k2 not in seen:
                    seen.add(k2)
                    nxt[k2] = (st2, p2)
        frontier = nxt
        if not frontier:
            break
    # model states / transitions are reported separately: `states`/`transitions` of the evidence count
    # implementation executions only
    core.bump(res, "model_states", len(seen))
    core.bump(res, "model_transitions", n_steps)
    core.bump(res, "model_boundary_branches_cut", model.boundary)
    core.bump(res, "model_horizon_cut_states", sum(1 for s, _ in frontier.values() if s["S"]))
    # ---- (i) conformance: replay the first path to every distinct terminal outcome on the REAL code
    case0 = {"mode": "mreach", "prop": prop, "alg": alg_name, "spec": spec, "m": m, "K": K, "mu": np.asarray(mu).tolist(), "horizon": horizon, "budget": budget}
    replays = dict(reps)
    for (Pt, Ut), path in terminal.items():
        replays[("T", Pt, Ut)] = path
    for _key, path in sorted(replays.items(), key=lambda kv: (len(kv[1]), str(kv[0])))[:40]:
        st = dict(st0)
        ok = True
        mst = dict(st0)
        live = copy.deepcopy(ex.tmpl)  # ONE implementation instance executes the whole model trace (nothing re-injected)
        for evs in path:
            ev = {int(k): v for k, v in evs.items()}
            st, done, _ = ex.step(st, ev, live=live)
            live = ex.last_alg
            mst = model.step(mst, ev)
            if (set(st["S"]), set(st["P"]), set(st["U"])) != (set(mst["S"]), set(mst["P"]), set(mst["U"])):
                ok = False
                break
        core.bump(res, "model_traces_replayed_on_impl")
        res["states"] += 1
        if not ok:
            res["violations"].append(core.violation(
                prop, {"kind": "model-impl-divergence", "alg": alg_name}, dict(case0, path=path), {"S": sorted(mst["S"]), "P": sorted(mst["P"]), "U": sorted(mst["U"])},
                {"S": sorted(st["S"]), "P": sorted(st["P"]), "U": sorted(st["U"])},
                f"{alg_name} cone={cones.name(spec) if spec else 'orthant'} truth={np.asarray(mu).tolist()}: replaying the reference model's path {path} on the real run_one_step() "
                f"gives S={sorted(st['S'])} P={sorted(st['P'])} U={sorted(st['U'])}, the model S={sorted(mst['S'])} P={sorted(mst['P'])} U={sorted(mst['U'])}"))
            return
    # ---- (ii) model counterexamples to the conclusion: confirm on the real code
    for path, bad in bad_paths:
        ex.violations = []
        st = dict(st0)
        for evs in path:
            st, done, _ = ex.step(st, {int(k): v for k, v in evs.items()})
        full = list(path)
        if st["S"]:
            st, full = ex.continue_default(st, path)  # run the default continuation to termination on the real code
        core.bump(res, "model_counterexamples_replayed")
        bad_t = ex.check_state(st, full) if st is not None else None
        if bad_t:
            ex.report(bad_t, st, full)
            v = ex.violations[0]
            v["case"] = dict(case0, path=full)
            res["violations"].append(v)
            return
        core.bump(res, "model_counterexamples_not_reproduced_by_impl")
    res["nontrivial"] += len(terminal)
    res["outcomes"].append(f"mreach|{alg_name}|{cones.name(spec) if spec else 'orth'}|{np.asarray(mu).tolist()}|{sorted(terminal)}")
    res["samples"].append({"flavour": "model-guided", "alg": alg_name, "cone": cones.name(spec) if spec else "orthant", "truth": np.asarray(mu).tolist(),
                           "deviating_rounds": budget, "model_states": len(seen), "model_transitions": n_steps, "terminal_outcomes": [list(map(list, t)) for t in sorted(terminal)]})


def replay_case(case):
    res = core.new_result()
    core.import_vopy()
    spec = reach._fix_spec(case["spec"])
    ex = reach.Explorer(case["prop"], case["alg"], spec, case["m"], case["K"], np.array(case["mu"]), case["horizon"], case["budget"], core.new_result())
    model = Model(ex)
    st0 = {"S": set(range(case["K"])), "P": set(), "U": set(), "layer": 0, "budget": case["budget"], "frozen": {}}
    st, mst = dict(st0), dict(st0)
    out = []
    live = copy.deepcopy(ex.tmpl)
    for evs in case["path"]:
        ev = {int(k): v for k, v in evs.items()}
        st, done, _ = ex.step(st, ev, live=live)
        live = ex.last_alg
        mst = model.step(mst, ev) if mst is not None else None
        if mst is not None and (set(st["S"]), set(st["P"]), set(st["U"])) != (set(mst["S"]), set(mst["P"]), set(mst["U"])):
            out.append(core.violation(case["prop"], {"kind": "model-impl-divergence", "alg": case["alg"]}, case, "model state", {"S": sorted(st["S"]), "P": sorted(st["P"])}, "divergence"))
            return out
    bad = ex.check_state(st, case["path"])
    if bad:
        ex.report(bad, st, case["path"])
        for v in ex.violations:
            v["case"] = case
        out.extend(ex.violations)
    return out
