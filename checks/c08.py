"""C08 - NaiveElimination with its default sample count is (eps, delta)-PAC; P is the exact Pareto
set of the per-design means of all observations.

grid engine: (sigma^2, eps, delta, theta, K) -> REAL constructor -> L; two-design instances whose
failure probability is a Gaussian measure of a 2-D wedge, integrated in closed form (deterministic
Gauss-Legendre quadrature of the conditional normal cdf - no sampling).  opseq engine: every
observation history up to depth 3 from a 3-value lattice per design through a scripted problem;
alg.P must equal the brute-force Pareto set of the exact rational means after every step.
"""
import itertools
from fractions import Fraction

import numpy as np

from vmc import cones, core, oracles, seams

PROPERTY = "C08"
LEVEL = "exploration"
RULE = ("grid sigma^2 in {1e-4,.01,.09,.25,1,4} x eps in {.05,.1,.5} x delta in {.01,.1,.5} x theta in {5,10,30,60,90,120,150} x K in {2,3,5}: real "
        "constructor -> default L -> closed-form failure probability of two instances (gap 1.01 eps along the cone axis; mutually non-dominated pair "
        "1.01 eps from being covered); all observation histories of depth<=3 (K=2) / 2 (K=3) over a 3-value lattice for the P getter; "
        "non-trivial = grid point with a computed failure probability / history with >= 2 distinct means")
ASSUMPTIONS = [
    "noise realisations are integrated in closed form (bivariate normal measure of a wedge), not enumerated; numpy's generator is trusted to be standard normal",
    "general K-design instances are covered only through two-design reductions (remaining designs far dominated, contributing < 1e-12)",
]


def wedge_prob(a, h, phi, s, n=2000):
    """P( |y| <= x tan(phi), x >= 0 ) for (x, y) ~ N((a, h), s^2 I): one-dimensional Gauss-Legendre
    quadrature of the conditional normal cdf"""
    from scipy.stats import norm

    t = np.tan(phi)
    lo, hi = max(0.0, a - 12 * s), max(a + 12 * s, 12 * s)
    total = 0.0
    xs, ws = np.polynomial.legendre.leggauss(64)
    edges = np.linspace(lo, hi, n // 64 + 2)
    for e0, e1 in zip(edges[:-1], edges[1:]):
        x = 0.5 * (e1 - e0) * xs + 0.5 * (e1 + e0)
        w = 0.5 * (e1 - e0) * ws
        dens = norm.pdf(x, loc=a, scale=s)
        inner = norm.cdf((x * t - h) / s) - norm.cdf((-x * t - h) / s)
        total += float(np.sum(w * dens * inner))
    return total


def units(ctx):
    us = []
    for theta in (5, 10, 30, 60, 90, 120, 150):
        us.append(("grid", theta, ctx.thorough))
    us.append(("hist", 2, 3, ("theta", 60)))
    us.append(("hist", 2, 3, ("theta", 120)))
    us.append(("hist", 3, 2, ("comp", 2)))
    us.append(("hist", 3, 2 if not ctx.thorough else 3, ("theta", 90)))
    return us


def run_grid(unit, res, only=None):
    _, theta, thorough = unit
    core.import_vopy()
    from vopy.algorithms import NaiveElimination
    from vopy.order import ConeTheta2DOrder

    order = ConeTheta2DOrder(theta)
    W = order.ordering_cone.W
    alpha = oracles.cone_alpha_vec(W)
    phi = np.radians(theta / 2.0)
    axis = np.array([1.0, 1.0]) / np.sqrt(2.0)
    perp = np.array([1.0, -1.0]) / np.sqrt(2.0)
    worst = 0.0
    for sigma2, eps, delta, K in itertools.product((1e-4, 0.01, 0.09, 0.25, 1.0, 4.0), (0.05, 0.1, 0.5), (0.01, 0.1, 0.5), (2, 3, 5)):
        if only is not None and [sigma2, eps, delta, K] != only:
            continue
        # instance 1: design 1 = design 0 + a*axis with gap(design 0) = 1.01 eps
        g1 = float(np.min(W @ axis / alpha))  # gap per unit length along the axis
        a = 1.01 * eps / g1
        far = [(-50.0 - 10 * k) * axis for k in range(K - 2)]
        Y = np.array([np.zeros(2), a * axis] + far)
        name = seams.inject_dataset(seams.default_inputs(K, 1), Y)
        alg = NaiveElimination(eps, delta, name, order, sigma2)
        L = int(alg.L)
        res["evaluations"] += 1
        s = np.sqrt(2.0 * sigma2 / L)
        gaps = oracles.gap_values(W, alpha, Y)
        assert abs(gaps[0] - 1.01 * eps) < 1e-9 * max(1, eps), (gaps, eps)
        p_in = wedge_prob(a, 0.0, phi, s)
        fail1 = 1.0 - p_in  # design 0 (gap > eps) is returned unless the mean difference lies in the cone
        # instance 2: two mutually non-dominated designs, separation 1.01 eps from being eps-covered
        d_unit = oracles.cover_distance(W, np.zeros(2), perp)  # cover distance per unit perpendicular separation
        h = 1.01 * eps / d_unit
        Y2 = np.array([np.zeros(2), h * perp] + far)
        assert abs(oracles.cover_distance(W, Y2[0], Y2[1]) - 1.01 * eps) < 1e-6 * eps
        fail2 = 2.0 * wedge_prob(0.0, h, phi, s)  # one dominates the other in the means -> the loser is dropped and not eps-covered
        case = {"mode": "grid", "unit": list(unit), "cfg": [sigma2, eps, delta, K]}
        res["nontrivial"] += 1
        worst = max(worst, max(fail1, fail2) / delta)
        for inst, f, desc in ((1, fail1, f"two designs, gap of design 0 = 1.01 eps along the cone axis"), (2, fail2, "two mutually non-dominated designs 1.01 eps from being covered")):
            if f > delta * (1 + 1e-6) + 1e-12:
                res["violations"].append(core.violation(
                    PROPERTY, {"kind": "pac-failure-probability", "sigma2_below_one": bool(sigma2 < 1.0)}, case, f"<= {delta}", f,
                    f"NaiveElimination(eps={eps}, delta={delta}, theta={theta}, K={K}, noise_var={sigma2}): default L={L}; instance {inst} ({desc}) fails with probability {f:.4g} > delta"))
                break
        if len(res["violations"]) >= 3:
            return
    res["outcomes"].append(f"theta{theta}:{worst:.3g}")
    res["samples"].append({"theta": theta, "worst_failure_over_delta": worst})


def run_hist(unit, res, only=None):
    _, K, depth, spec = unit
    core.import_vopy()
    from vopy.algorithms import NaiveElimination

    order = cones.make_order(spec)
    W = order.ordering_cone.W
    vals = [np.array([0.0, 0.0]), np.array([1.0, -0.5]), np.array([-0.5, 1.5])]
    Y = np.zeros((K, 2))
    # one configuration keeps raw INTEGER objectives in the dataset (a custom Dataset may do so): the float
    # observations must still be averaged exactly
    name = seams.inject_dataset(seams.default_inputs(K, 1), Y, out_dtype=(int if (K == 2 and depth == 3 and spec == ("theta", 60)) else float))
    base = NaiveElimination(0.1, 0.1, name, order, 0.01, L=depth)
    step_choices = list(itertools.product(range(3), repeat=K))
    n = 0
    for hist in itertools.product(range(len(step_choices)), repeat=depth):
        if only is not None and list(hist) != only:
            continue
        import copy

        alg = copy.deepcopy(base)
        state = {"k": 0}

        def script(x, *a, **kw):
            ch = step_choices[hist[state["k"]]]
            return np.array([vals[c] for c in ch])

        alg.problem = seams.RecordingProblem(alg.problem, script=script)
        sums = [[Fraction(0), Fraction(0)] for _ in range(K)]
        for k in range(depth):
            state["k"] = k
            alg.run_one_step()
            res["evaluations"] += 1
            ch = step_choices[hist[k]]
            for i in range(K):
                for d in range(2):
                    sums[i][d] += Fraction(float(vals[ch[i]][d]))
            means = [[float(sv / (k + 1)) for sv in row] for row in sums]
            D = oracles.dom_matrix_exact(W, means)
            nond = [i for i in range(K) if not any(D[i][j] and not D[j][i] for j in range(K))]
            # equal means: exactly one representative each
            got = [int(x) for x in np.asarray(alg.P).tolist()]
            vals_got = sorted({tuple(means[i]) for i in got})
            vals_want = sorted({tuple(means[i]) for i in nond})
            ok = set(got) <= set(nond) and vals_got == vals_want and len(got) == len(vals_got)
            # skip boundary situations for non-integer W
            nearb = any(np.any(np.abs(W @ (np.array(means[j]) - np.array(means[i]))) < 1e-12) and means[i] != means[j] for i in range(K) for j in range(K))
            if nearb:
                res["boundary_skipped"] += 1
                continue
            res["nontrivial"] += 1
            if not ok:
                res["violations"].append(core.violation(PROPERTY, {"kind": "P-not-pareto-of-means"}, {"mode": "hist", "unit": list(unit), "hist": list(hist)}, nond, got,
                                                        f"NaiveElimination.P = {got} after {k + 1} rounds, Pareto set of the exact means {means} is {nond} (cone {cones.name(spec)})"))
                return
        n += 1
    res["states"] = n
    res["outcomes"].append(f"hist:{K}:{depth}:{cones.name(spec)}")
    res["samples"].append({"histories": n, "K": K, "depth": depth, "cone": cones.name(spec)})


def run_unit(unit):
    res = core.new_result()
    (run_grid if unit[0] == "grid" else run_hist)(unit, res)
    return res


def replay_case(case):
    res = core.new_result()
    u = list(case["unit"])
    if case["mode"] == "grid":
        run_grid(tuple(u), res, only=case["cfg"])
    else:
        u[3] = tuple(u[3])
        run_hist(tuple(u), res, only=case["hist"])
    return res["violations"]
