"""One-step exploration shared by C02 (elimination half) and C03 (P-entry / useful half).

For every algorithm x cone x epsilon: every composition of K designs into S / P∩U / P∖U / discarded
(S non-empty) x every assignment of regions from a lattice alphabet (identical, touching, nested,
overlapping, disjoint, anisotropic, correlated) -> inject -> ONE real run_one_step() -> compare
with the independent reference transition computed from the regions the design space displays.
States are arbitrary (not only reachable ones), as C02/C03 demand ("arbitrary stub posteriors").
"""
import copy
import itertools

import numpy as np

from vmc import cones, core, lattice, oracles, reference, stepmc

RECT_ALPHA = [
    ((0, 0), (1, 1)), ((1, 1), (2, 2)), ((2, 2), (3, 3)), ((0, 2), (1, 3)), ((2, 0), (3, 1)),
    ((0, 0), (3, 1)), ((0, 0), (1, 3)), ((0, 0), (3, 3)), ((1, 0), (2, 3)), ((0, 1), (3, 2)),
    ((1.5, 1.5), (2.5, 2.5)), ((0.5, 0), (1.5, 1)),
    ((1, 1), (1.25, 1.25)), ((1.125, 1.125), (1.375, 1.375)),  # tiny regions (late-run regime; self/near-self certificates)
]
RECT_ALPHA3 = [((0, 0, 0), (1, 1, 1)), ((1, 1, 1), (2, 2, 2)), ((0, 0, 1), (2, 1, 2)), ((2, 2, 2), (3, 3, 3)), ((0.5, 1.5, 0.5), (1.5, 2.5, 1.5))]
_I = ((1.0, 0.0), (0.0, 1.0))
_A1 = ((1.0, 0.0), (0.0, 1.0 / 16))
_A2 = ((1.0 / 16, 0.0), (0.0, 1.0))
_C = ((1.0, 0.8), (0.8, 1.0))
_CN = ((1.0, -0.8), (-0.8, 1.0))
ELL_ALPHA = [
    ((0, 0), _I, 1.0), ((0, 0), _I, 0.5), ((1.5, 1.5), _I, 0.5), ((2, 2), _A1, 1.0), ((2, 0), _I, 0.5),
    ((0, 2), _C, 1.0), ((3, 3), _I, 1.0), ((1, 1), _A2, 0.5), ((2.5, 2.5), _I, 0.25), ((2.625, 2.625), _I, 0.125),
    ((2, 1), _C, 0.5), ((1, 2), _CN, 1.0),  # more correlated / anti-correlated shapes (orientation matters)
]
EPS = [0.6, 1.2]


def alphabet(kind, m, small=False):
    if kind == "rect":
        a = RECT_ALPHA if m == 2 else RECT_ALPHA3
        if small:
            a = [a[i] for i in ((0, 1, 5, 10, 12) if m == 2 else (0, 1, 4))]
        return [("rect", np.array(lo, float), np.array(hi, float)) for lo, hi in a]
    a = ELL_ALPHA
    if small:
        a = [a[i] for i in (0, 2, 3, 5, 10, 11)]
    return [("ell", np.array(c, float), np.array(S, float), float(r)) for c, S, r in a]


def embed(t, sc, off):
    if t[0] == "rect":
        return ("rect", t[1] * sc + off, t[2] * sc + off)
    return ("ell", t[1] * sc + off, t[2] * sc * sc, t[3])


def cone_sets(alg, thorough):
    fam, kind = stepmc.ALGS[alg]
    if alg in stepmc.ORTHANT_ONLY:
        return [(None, 2)] + ([(None, 3)] if thorough else [])
    base = [("comp", 2), ("theta", 45), ("theta", 60), ("theta", 120), ("theta", 135), ("theta", 150)]
    if thorough:
        base += [("theta", 30), ("theta", 90), ("W", ((1, 1), (-1, 2)), "unit"), ("W", ((1, 2), (2, 1)), "unit")]
    out = [(c, 2) for c in base]
    if kind == "ell" or fam == "vogp":
        out += [(("theta3", 135), 2)]
        if thorough:
            out += [(("theta3", 60), 2)]
    if fam == "vogp" or (thorough and kind == "ell" and alg != "PaVeBa"):
        out += [(("c3d", "acute"), 3)]
        if thorough:
            out += [(("ice", 30, 4), 3), (("c3d", "obtuse"), 3)]
    if kind == "rect" and fam == "paveba" and thorough:
        out += [(("c3d", "obtuse"), 3)]
    return out


def units(ctx, which):
    us = []
    algs = list(stepmc.ALGS)
    for alg in algs:
        for spec, m in cone_sets(alg, ctx.thorough):
            for e in range(len(EPS)):
                us.append(("os", which, alg, spec, 2, m, e, ctx.seed, ctx.thorough))
            if m == 2 and (ctx.thorough or spec in (None, ("comp", 2), ("theta", 135))):
                us.append(("os", which, alg, spec, 3, m, ctx.seed % 2, ctx.seed, ctx.thorough))
    for d, depth_max in ((1, 2), (1, 3), (2, 2)):
        for prob in ("mono", "front", "wave"):
            for spec in ([("comp", 2), ("theta", 60), ("theta", 120)] if (d == 1 or ctx.thorough) else [("comp", 2)]):
                us.append(("adref", which, d, depth_max, prob, spec, 0.1, 40 if d == 1 else 14))
    for K in (3, 4):
        for part in range(8 if ctx.thorough else 4):
            us.append(("auer_het", K, part, 8 if ctx.thorough else 4, ctx.seed, ctx.thorough, which))
    us.append(("sens3", which, ctx.thorough))
    from checks import hist

    us = hist.units(ctx, which) + us  # long units first (pool balance)
    n_iv = len(INTERVALS) if ctx.thorough else 5
    for alg, spec in ([("EpsilonPAL", None)] + ([("VOGP", ("comp", 2)), ("VOGP", ("theta", 60)), ("PaVeBaGP-IH", ("comp", 2))] if ctx.thorough else [("VOGP", ("theta", 60))])):
        for first in range(n_iv * n_iv):
            if ctx.thorough or alg == "EpsilonPAL" or first % 3 == ctx.seed % 3:
                us.append(("os3", which, alg, spec, first, ctx.seed, ctx.thorough))
    return us


def _cone_W(alg, spec, m):
    if spec is None:
        return np.eye(m)
    return cones.W_of(spec)


def step_case(alg_t, alg_name, spec, m, eps, combo, regs, which, res, case):
    """one real step from the injected state; returns list of violations"""
    fam, kind = stepmc.ALGS[alg_name]
    W = _cone_W(alg_name, spec, m)
    alg = copy.deepcopy(alg_t)
    S, P, U = stepmc.roles_to_sets(combo)
    stepmc.inject(alg, S, P, U, rnd=3)
    active = stepmc.active_set(alg)
    targets = {}
    k = 0
    for i, role in enumerate(combo):
        if role == "D":
            continue
        t = regs[k]
        k += 1
        if i in active:
            targets[i] = t
        else:
            stepmc.set_region_direct(alg, i, t)
    if fam == "auer":
        stepmc.set_display(alg, {i: ("c", (t[1] + t[2]) / 2.0, None) for i, t in targets.items()})
    else:
        stepmc.set_display(alg, targets)
    before = stepmc.snapshot(alg)
    pess_impl = None
    if fam == "vogp":
        probe = copy.deepcopy(alg)
        probe.modeling()
        pess_impl = set(probe.compute_pessimistic_set())
    out = []
    res["evaluations"] += 1
    res["transitions"] += 1
    try:
        alg.run_one_step()
    except Exception as e:  # the round did not complete: no decision was taken
        out.append(core.violation(which, {"kind": "step-raised", "alg": alg_name, "cone_class": _cc(spec, m)}, case, "step completes",
                                  repr(e)[:200], f"{alg_name} run_one_step raised {e!r} from S={S} P={P} U={U}"))
        return out
    after = stepmc.snapshot(alg)
    regions = stepmc.read_regions(alg, [i for i, r in enumerate(combo) if r != "D"])
    if fam == "paveba":
        ref = reference.paveba_reference(W, eps, regions, before, after, kind, rect_shift=getattr(alg, "cone_alpha_eps", None))
    elif fam == "vogp":
        slack = eps * oracles.u_star(W)[0] if alg_name == "VOGP" else np.full(m, eps)
        ref = reference.vogp_reference(W, eps, regions, before, after, slack, pess_impl, W.shape == (2, 2))
    else:
        ref = reference.auer_reference(eps, regions, before, after)
    res["outcomes"].append(f"{alg_name}|{sorted(ref['D_obs'])}|{sorted(after['P'] - before['P'])}|{sorted(after['U'])}")

    def cmp(stage, prop, kindname):
        for i, (want, got) in ref.get(stage, {}).items():
            if want == 0:
                res["boundary_skipped"] += 1
                continue
            res["nontrivial"] += 1
            core.bump(res, f"{stage}_{'yes' if want > 0 else 'no'}")
            core.bump(res, f"{alg_name}:{stage}_{'yes' if want > 0 else 'no'}")
            if (want > 0) != bool(got):
                out.append(core.violation(
                    prop, {"kind": kindname, "alg": alg_name, "cone_class": _cc(spec, m), "expected": want > 0}, case, want > 0, bool(got),
                    f"{alg_name} cone={_cn(spec, m)} eps={eps}: design {i} {stage}: reference says {want > 0}, real step did {bool(got)}; "
                    f"S={sorted(S)} P={sorted(P)} U={sorted(U)} -> S'={sorted(after['S'])} P'={sorted(after['P'])} U'={sorted(after['U'])}; "
                    f"regions={ {j: [np.round(x, 6).tolist() if hasattr(x, 'tolist') else x for x in r[1:]] for j, r in regions.items()} }"))

    if which == "C02":
        cmp("discard", "C02", "elimination")
        if fam == "vogp":
            # derived clause of C11: pessimistic set = designs nobody pessimistically dominates
            for i, (want, got) in ref["pess"].items():
                if want == 0:
                    continue
                if W.shape == (2, 2) and (want > 0) != bool(got):
                    out.append(core.violation("C02", {"kind": "pessimistic-set", "alg": alg_name, "cone_class": _cc(spec, m)}, case, want > 0, bool(got),
                                              f"{alg_name}: design {i} pessimistic-set membership {got}, exact {want > 0}"))
                if W.shape != (2, 2) and want > 0 and not got:
                    out.append(core.violation("C02", {"kind": "pessimistic-set-unsound", "alg": alg_name, "cone_class": _cc(spec, m)}, case, True, False,
                                              f"{alg_name}: design {i} removed from the pessimistic set although nobody pessimistically dominates it"))
    else:
        cmp("pareto", "C03", "p-entry")
        cmp("useful", "C03", "useful-set")
        if not set(before["P"]) <= set(after["P"]):
            out.append(core.violation("C03", {"kind": "p-shrinks", "alg": alg_name}, case, "P grows", sorted(after["P"]), f"{alg_name}: a member left P"))
    return out


def _cc(spec, m):
    return "right-2D" if spec is None and m == 2 else ("3D" if spec is None else cones.cone_class(spec))


def _cn(spec, m):
    return f"orthant{m}" if spec is None else cones.name(spec)


def run_os(unit, res, only=None):
    _, which, alg_name, spec, K, m, e_idx, seed, thorough = unit
    core.import_vopy()
    fam, kind = stepmc.ALGS[alg_name]
    sc = 1.0
    eps = EPS[e_idx] * sc
    off = lattice.offset_for(seed, m, sc)
    small = K >= 3 or (kind == "ell" and not thorough and alg_name != "PaVeBaGP-DE") or m == 3
    if not (kind == "ell" and m == 3):
        alpha = [embed(t, sc, off) for t in alphabet(kind, m, small=small)]
    else:
        alpha = [("ell", np.array(c, float) * sc + off, np.eye(3) * sc * sc * s, r) for c, s, r in
                 (((0, 0, 0), 1.0, 1.0), ((1.5, 1.5, 1.5), 1.0, 0.5), ((3, 3, 3), 0.25, 1.0))]
    # Auer owns its widths: pick conf_contraction so that beta ~ 0.46 lattice units (decisions vary)
    tmpl = stepmc.build_template(alg_name, spec, K, m, eps, **({"contraction": 4.5} if alg_name == "Auer" else {}))
    nv = 0
    states = set()
    for combo in stepmc.compositions(alg_name, K):
        n_reg = sum(1 for r in combo if r != "D")
        for ridx in itertools.product(range(len(alpha)), repeat=n_reg):
            if only is not None and (list(combo), list(ridx)) != only:
                continue
            regs = [alpha[i] for i in ridx]
            case = {"mode": "os", "unit": list(unit), "combo": list(combo), "ridx": list(ridx)}
            states.add((combo, ridx))
            vs = step_case(tmpl, alg_name, spec, m, eps, combo, regs, which, res, case)
            vs = [v for v in vs if v["property"] == which]
            if vs:
                res["violations"].extend(vs[:2])
                nv += 1
                if nv >= 3:
                    res["states"] += len(states)
                    return
    res["states"] += len(states)
    res["samples"].append({"alg": alg_name, "cone": _cn(spec, m), "K": K, "eps": eps, "compositions": len(list(stepmc.compositions(alg_name, K))),
                           "alphabet_size": len(alpha), "example_region": [np.asarray(x).tolist() if hasattr(x, "tolist") else x for x in alpha[0][1:]]})


# ---------------------------------------------------------------------------------------------
# three designs with clearly different widths: rectangles = products of intervals from a small
# interval alphabet (wide / tight / tiny / shifted), all three in S (thorough: also one in P)

# chosen with the reference-level vacuity probe of DESIGN 2.7 (run_sens3 below): on the first five every reference
# mutant changes outcomes (720 / 5576 / 12217 / 1072 / 2475 of 15625 triples); a family without the wide
# interval [0,3] is blind to "P-entry against the pre-discarding active set", one without a 0.7-long interval
# is blind to a slack scaled by 1.3
INTERVALS = [(0.0, 1.0), (0.5, 0.55), (0.0, 3.0), (0.5, 1.0), (0.3, 1.0), (1.0, 2.0)]


def run_os3(unit, res, only=None):
    _, which, alg_name, spec, first, seed, thorough = unit
    core.import_vopy()
    m = 2
    eps = 0.6
    ivs = INTERVALS if thorough else INTERVALS[:5]
    rects = [("rect", np.array([a[0], b[0]]), np.array([a[1], b[1]])) for a in ivs for b in ivs]
    off = lattice.offset_for(seed, m, 1.0)
    rects = [embed(t, 1.0, off) for t in rects]
    tmpl = stepmc.build_template(alg_name, spec, 3, m, eps)
    combos = [("S", "S", "S")] + ([("S", "S", "P")] if thorough else [])
    nv = 0
    n = 0
    for combo in combos:
        for i2 in range(len(rects)):
            for i3 in range(len(rects)):
                ridx = (first, i2, i3)
                if only is not None and (list(combo), list(ridx)) != only:
                    continue
                n += 1
                case = {"mode": "os3", "unit": list(unit), "combo": list(combo), "ridx": list(ridx)}
                vs = step_case(tmpl, alg_name, spec, m, eps, combo, [rects[i] for i in ridx], which, res, case)
                vs = [v for v in vs if v["property"] == which]
                if vs:
                    res["violations"].extend(vs[:2])
                    nv += 1
                    if nv >= 3:
                        res["states"] += n
                        return
    res["states"] += n
    res["samples"].append({"alg": alg_name, "cone": _cn(spec, m), "K": 3, "eps": eps, "interval_alphabet": [list(i) for i in ivs], "first_rectangle": first, "triples": n})


# ---------------------------------------------------------------------------------------------
# vacuity guard (DESIGN 2.7): reference-level mutants over the three-design family.  No library code
# runs here: the reference transition and deliberately wrong variants of it are evaluated on every
# triple of the family; a variant that never changes an outcome means the family is blind to the
# corresponding class of code changes, and the check refuses to run (harness error).

REF_MUTANTS = ["p-entry against pre-discarding set", "slack x1.3", "slack dropped", "witnesses from all active (not only pessimistic)",
               "candidate's own region used as coverer too"]


def run_sens3(unit, res):
    _, which, thorough = unit
    W = np.eye(2)
    eps = 0.6
    ivs = INTERVALS if thorough else INTERVALS[:5]
    rects = [("rect", np.array([a[0], b[0]]), np.array([a[1], b[1]])) for a in ivs for b in ivs]
    tau = 1e-6
    diff = {k: 0 for k in REF_MUTANTS}
    n = 0

    def outcome(regs, slack, pre_discard=False, all_witness=False, self_cover=False):
        W0 = {0, 1, 2}
        pess = {i for i in W0 if reference.exists3(reference.pess3(W, regs[j], regs[i], tau) for j in W0 if j != i) == -1}
        wit = W0 if all_witness else pess
        disc = {i for i in W0 - pess if reference.exists3(reference.dominated3(W, regs[i], regs[j], slack, tau) for j in wit if j != i) == 1}
        S1 = W0 - disc
        cmp = W0 if pre_discard else S1
        ent = {i for i in S1 if reference.exists3(reference.covered3(W, regs[i], regs[j], slack, tau) for j in cmp if (self_cover or j != i)) == -1}
        return (frozenset(disc), frozenset(ent))

    for tri in itertools.product(range(len(rects)), repeat=3):
        regs = {i: rects[t] for i, t in enumerate(tri)}
        s0 = np.full(2, eps)
        base = outcome(regs, s0)
        n += 1
        if outcome(regs, s0, pre_discard=True) != base:
            diff[REF_MUTANTS[0]] += 1
        if outcome(regs, s0 * 1.3) != base:
            diff[REF_MUTANTS[1]] += 1
        if outcome(regs, s0 * 0.0) != base:
            diff[REF_MUTANTS[2]] += 1
        if outcome(regs, s0, all_witness=True) != base:
            diff[REF_MUTANTS[3]] += 1
        if outcome(regs, s0, self_cover=True) != base:
            diff[REF_MUTANTS[4]] += 1
    res["evaluations"] += n
    for k, v in diff.items():
        core.bump(res, "sens3:" + k, v)
    res["samples"].append({"reference_level_mutants_over_three_design_family": diff, "triples": n})
    res["outcomes"].append("sens3")


# ---------------------------------------------------------------------------------------------
# heteroscedastic Auer (C03): per-design widths differ, a middle design is discarded in the round


def auer_het_cases(K, thorough):
    """centres on a 7x7 grid of step 0.5, variances in {0,1,4}; K designs all in S, round 50"""
    grid = [np.array(p) for p in itertools.product([0.5 * i for i in range(7)], repeat=2)]
    var_alpha = (0.0, 1.0, 4.0)
    if K == 3:
        cs = itertools.product(range(0, 49, 3), range(1, 49, 5), range(2, 49, 7)) if not thorough else itertools.product(range(0, 49, 2), range(1, 49, 3), range(2, 49, 4))
    else:
        cs = itertools.product(range(0, 49, 8), range(1, 49, 9), range(2, 49, 10), range(3, 49, 11)) if not thorough else itertools.product(range(0, 49, 5), range(1, 49, 6), range(2, 49, 7), range(3, 49, 8))
    for cidx in cs:
        for vs in itertools.product(var_alpha, repeat=K):
            if len(set(vs)) == 1:
                continue
            yield cidx, vs, grid


def run_auer_het(unit, res, only=None):
    _, K, part, nparts, seed, thorough = unit[:6]
    which = unit[6] if len(unit) > 6 else "C03"
    core.import_vopy()
    eps = 0.3
    tmpl = stepmc.build_template("Auer", None, K, 2, eps, delta=0.1, noise_var=1.0, contraction=1.0, use_empirical_beta=True)
    nv = 0
    n = 0
    for cidx, vs, grid in auer_het_cases(K, thorough):
        n += 1
        if n % nparts != part:
            continue
        if only is not None and (list(cidx), list(vs)) != only:
            continue
        alg = copy.deepcopy(tmpl)
        stepmc.inject(alg, set(range(K)), set(), rnd=49)
        for i in range(K):
            alg.model.mean[i] = grid[cidx[i]]
            alg.model.cov[i] = np.eye(2) * vs[i]
        before = stepmc.snapshot(alg)
        res["evaluations"] += 1
        res["transitions"] += 1
        case = {"mode": "auer_het", "unit": list(unit), "cidx": list(cidx), "vs": list(vs)}
        try:
            alg.run_one_step()
        except Exception as e:
            res["violations"].append(core.violation("C03", {"kind": "step-raised", "alg": "Auer-empirical"}, case, "completes", repr(e)[:200], f"Auer raised {e!r}"))
            return
        after = stepmc.snapshot(alg)
        regions = stepmc.read_regions(alg, range(K))
        ref = reference.auer_reference(eps, regions, before, after)
        hw = [tuple(np.round((regions[i][2] - regions[i][1]) / 2, 4)) for i in range(K)]
        res["outcomes"].append(f"auerhet|{sorted(ref['D_obs'])}|{sorted(after['P'])}")
        if len(set(hw)) > 1 and ref["D_obs"]:
            core.bump(res, "het_with_discard")
        if which == "C02":
            for i, (want, got) in ref["discard"].items():
                if want == 0:
                    res["boundary_skipped"] += 1
                    continue
                res["nontrivial"] += 1
                core.bump(res, "auer_het_discard_yes" if want > 0 else "auer_het_discard_no")
                if (want > 0) != bool(got):
                    res["violations"].append(core.violation(
                        "C02", {"kind": "elimination", "alg": "Auer-empirical"}, case, want > 0, bool(got),
                        f"Auer(empirical beta) K={K}: design {i} elimination reference {want > 0} (each design's own displayed width) but real step {bool(got)}; centres="
                        f"{[grid[c].tolist() for c in cidx]} variances={list(vs)} widths={hw} S'={sorted(after['S'])} P'={sorted(after['P'])}"))
                    nv += 1
                    break
            if nv >= 3:
                break
            continue
        for i, (want, got) in ref["pareto"].items():
            if want == 0:
                res["boundary_skipped"] += 1
                continue
            res["nontrivial"] += 1
            core.bump(res, "auer_pareto_yes" if want > 0 else "auer_pareto_no")
            if (want > 0) != bool(got):
                res["violations"].append(core.violation(
                    "C03", {"kind": "p-entry", "alg": "Auer-empirical", "discard_in_round": bool(ref["D_obs"])}, case, want > 0, bool(got),
                    f"Auer(empirical beta) K={K}: design {i} P-entry reference {want > 0} (own widths) but real step {bool(got)}; centres="
                    f"{[grid[c].tolist() for c in cidx]} variances={list(vs)} widths={hw} discarded={sorted(ref['D_obs'])} P'={sorted(after['P'])}"))
                nv += 1
                break
        if nv >= 3:
            break
    res["states"] += res["evaluations"]
    res["samples"].append({"alg": "Auer-empirical", "K": K, "round": 50, "variance_alphabet": [0, 1, 4], "centre_grid": "7x7 step 0.5"})


# ---------------------------------------------------------------------------------------------
# VOGP_AD: every transition of the C18 explicit-state exploration through the VOGP reference


def ad_reference_check(which, res, eps, spec):
    W = cones.W_of(spec)
    slack = eps * oracles.u_star(W)[0]

    def check(before, alg, done, calls, bad):
        ds1 = alg.design_space
        n0 = len(before.design_space.points)
        S0, P0 = set(before.S), set(before.P)
        new_nodes = set(range(n0, len(ds1.points)))
        refined = set()
        if new_nodes:
            # the refined node: the old active node that is no longer in S/P although it was neither discarded nor declared
            k = min(new_nodes)
            cell = ds1.cells[k]
            for i in S0 | P0:
                c = ds1.cells[i]
                if all(c[q][0] <= cell[q][0] and cell[q][1] <= c[q][1] for q in range(len(c))) and i not in new_nodes:
                    refined.add(i)
        S1 = (set(alg.S) - new_nodes) | (refined & S0 if any(j in alg.S for j in new_nodes) else set())
        P1 = (set(alg.P) - new_nodes) | (refined & P0 if any(j in alg.P for j in new_nodes) else set())
        # a node refined out of S counts as still being a candidate at decision time
        probe = copy.deepcopy(before)
        probe.beta = probe.compute_beta()
        probe.modeling()
        pess_impl = set(probe.compute_pessimistic_set())
        regions = stepmc.read_regions(probe, sorted(S0 | P0))
        b = {"S": S0, "P": P0, "U": set()}
        a = {"S": S1, "P": P1, "U": set()}
        ref = reference.vogp_reference(W, eps, regions, b, a, slack, pess_impl, W.shape == (2, 2))
        latch_on = bool(alg.enable_epsilon_covering)
        res["outcomes"].append(f"VOGP_AD|{len(ref['D_obs'])}|{len(P1 - P0)}|{latch_on}")
        if which == "C02":
            for i, (want, got) in ref["discard"].items():
                if want == 0:
                    res["boundary_skipped"] += 1
                    continue
                res["nontrivial"] += 1
                core.bump(res, f"VOGP_AD:discard_{'yes' if want > 0 else 'no'}")
                if (want > 0) != bool(got):
                    return bad("elimination", want > 0, bool(got), f"node {i}: reference elimination {want > 0}, real step {bool(got)} (S {sorted(S0)} -> {sorted(S1)}, P {sorted(P0)} -> {sorted(P1)})")
        else:
            if not P0 <= P1:
                return bad("p-shrinks", "P grows", sorted(P0 - P1), "a member left P")
            for i, (want, got) in ref["pareto"].items():
                if not latch_on:
                    want = -1  # declarations are gated by the depth latch
                if want == 0:
                    res["boundary_skipped"] += 1
                    continue
                res["nontrivial"] += 1
                core.bump(res, f"VOGP_AD:pareto_{'yes' if want > 0 else 'no'}")
                if (want > 0) != bool(got):
                    return bad("p-entry", want > 0, bool(got), f"node {i}: reference P-entry {want > 0} (latch {latch_on}), real step {bool(got)} (S {sorted(S0)} -> {sorted(S1)}, P {sorted(P0)} -> {sorted(P1)})")
        return None
    return check


def run_adref(unit, res, replay=None):
    from checks import c18

    _, which, d, depth_max, prob, spec, eps, horizon = unit
    core.import_vopy()
    c18.run_ad(("ad", d, depth_max, prob, spec, eps, horizon), res, replay=replay, extra_check=ad_reference_check(which, res, eps, spec), prop=which)
    for v in res["violations"]:
        v["case"] = {"mode": "adref", "unit": list(unit), "path": v["case"].get("path", [])}
        v["key"]["alg"] = "VOGP_AD"


def run_unit(unit):
    res = core.new_result()
    if unit[0] == "os":
        run_os(unit, res)
    elif unit[0] == "adref":
        run_adref(unit, res)
    elif unit[0] == "os3":
        run_os3(unit, res)
    elif unit[0] == "sens3":
        run_sens3(unit, res)
    elif unit[0] == "hist":
        from checks import hist

        hist.run_hist(unit, res)
    else:
        run_auer_het(unit, res)
    return res


def _fix(u):
    u = list(u)
    if u[0] == "os" and u[3] is not None:
        u[3] = tuple(tuple(tuple(r) for r in x) if isinstance(x, list) else x for x in u[3])
    return tuple(u)


def replay_case(case):
    res = core.new_result()
    if case["mode"] == "hist":
        from checks import hist, reach

        uu = list(case["unit"])
        uu[3] = reach._fix_spec(uu[3])
        hist.run_hist(tuple(uu), res, replay=case["path"])
        return res["violations"]
    u = _fix(case["unit"])
    if case["mode"] == "os3":
        uu = list(case["unit"])
        if uu[3] is not None:
            uu[3] = tuple(tuple(tuple(r) for r in x) if isinstance(x, list) else x for x in uu[3])
        run_os3(tuple(uu), res, only=(list(case["combo"]), list(case["ridx"])))
    elif case["mode"] == "adref":
        uu = list(case["unit"])
        uu[5] = tuple(tuple(tuple(r) for r in x) if isinstance(x, list) else x for x in uu[5])
        run_adref(tuple(uu), res, replay=case["path"])
    elif case["mode"] == "os":
        run_os(u, res, only=(list(case["combo"]), list(case["ridx"])))
    else:
        run_auer_het(u, res, only=(list(case["cidx"]), list(case["vs"])))
    return res["violations"]
