"""C13 - Pareto-set extraction is exact for every finite set and cone.

Every sequence (order matters: the bug class is index bookkeeping) of N <= 4 (thorough 5) vectors of
the 3x3 lattice (m=2) and N <= 3 (thorough 4) of the 2x2x2 lattice (m=3), x cone family incl. K > m,
plus a pattern grammar of longer inputs (chains, duplicates, dominated-before/after-dominator) up to
N = 12.  Oracle: brute-force dominance matrix in exact rational arithmetic.
"""
import itertools

import numpy as np

from vmc import cones, core, lattice, oracles

PROPERTY = "C13"
LEVEL = "exploration"
RULE = (
    "all sequences of <=N lattice vectors (3x3 for m=2, 2x2x2 for m=3; with repetition, ordered) x "
    "cone family (2x2, K=3>m, integer, 3-D, ice-cream) + exhaustive pattern grammar up to 12 points; "
    "non-trivial = sequence with >= 2 points whose dominance matrix is decided off the float boundary"
)
ASSUMPTIONS = [
    "exact Fraction dominance on the float W is the definition; sequences containing a pair within 1e-12 of a facet are skipped for non-integer W",
    "'hundreds of random points' replaced by exhaustive small lattices and the pattern grammar (DESIGN 5.4)",
]


def units(ctx):
    us = []
    fam2 = cones.family_2d(ctx.thorough, ctx.seed)
    fam3 = cones.family_3d(ctx.thorough)
    N2 = 5 if ctx.thorough else 4
    N3 = 4 if ctx.thorough else 3
    sc = lattice.scales_for(ctx.thorough, ctx.seed, 1)
    for s in sc:
        for k, spec in enumerate(fam2):
            # thorough: the 9^5 ordered sequences for every third cone, 9^4 for the others (cost)
            us.append(("seqs", spec, 2, N2 if (not ctx.thorough or k % 3 == 0) else 4, s, ctx.seed))
            if k % 4 == 0:
                us.append(("seqs", spec, 2, 3, s, ctx.seed, 1))  # the same lattice translated by 2^17 steps
        for spec in fam3:
            us.append(("seqs", spec, 3, N3, s, ctx.seed))
    for spec in fam2 + fam3:
        us.append(("grammar", spec, 2 if spec in fam2 else 3, 1.0, ctx.seed))
    return us


def _oracle_check(order, spec, V, D, res, case):
    """D[i][j]: j weakly dominates i (exact).  Returns violation or None."""
    n = len(V)
    V = np.asarray(V, float)
    fast = order.get_pareto_set(V.copy())
    naive = order.get_pareto_set_naive(V.copy())
    res["evaluations"] += 2
    eq = [[bool(np.array_equal(V[i], V[j])) for j in range(n)] for i in range(n)]
    strict = [[D[i][j] and not D[j][i] for j in range(n)] for i in range(n)]  # j strictly dominates i
    nondom = [i for i in range(n) if not any(strict[i][j] for j in range(n))]

    def bad(kind, got, want, msg):
        return core.violation(PROPERTY, {"kind": kind, "cone": cones.name(spec)}, case, want, got, msg)

    for name, out in (("fast", fast), ("naive", naive)):
        out = np.asarray(out)
        lst = [int(x) for x in out.tolist()]
        if out.ndim != 1 or any(x < 0 or x >= n for x in lst):
            return bad(name + "-indices-valid", lst, "indices in range", f"{name}: invalid indices {lst} for {V.tolist()}")
        if len(set(lst)) != len(lst):
            return bad(name + "-indices-distinct", lst, "distinct", f"{name}: repeated indices {lst}")
        if lst != sorted(lst):
            return bad(name + "-indices-increasing", lst, "increasing", f"{name}: indices not increasing {lst}")
        for i in lst:
            if i not in nondom:
                return bad(name + "-contains-dominated", lst, nondom, f"{name}: returns strictly dominated index {i} for {V.tolist()} cone {cones.name(spec)}")
        for i in range(n):
            if not any(D[i][j] for j in lst):
                return bad(name + "-misses-cover", lst, nondom, f"{name}: input {i} not weakly dominated by any returned index {lst} for {V.tolist()} cone {cones.name(spec)}")
    lst = [int(x) for x in np.asarray(fast).tolist()]
    for a, b in itertools.combinations(lst, 2):
        if eq[a][b]:
            return bad("fast-duplicate-kept", lst, "one per value", f"fast: equal vectors {a},{b} both returned for {V.tolist()}")
    lstn = [int(x) for x in np.asarray(naive).tolist()]
    if lstn != nondom:
        return bad("naive-not-all-nondominated", lstn, nondom, f"naive: expected all non-dominated {nondom}, got {lstn} for {V.tolist()}")
    # the fast routine keeps exactly one representative per non-dominated value
    vals_f = sorted({tuple(V[i]) for i in lst})
    vals_n = sorted({tuple(V[i]) for i in nondom})
    if vals_f != vals_n:
        return bad("fast-value-set", lst, nondom, f"fast: value set differs from the non-dominated values for {V.tolist()}")
    return None


def _run_seq_space(spec, m, N, sc, seed, res, only=None, far=0):
    core.import_vopy()
    order = cones.make_order(spec)
    W = order.ordering_cone.W
    intW = bool(np.all(W == np.round(W)))
    step = sc
    off = lattice.offset_for(seed, m, step)
    if far:
        off = off + (2.0 ** 17) * step * np.array([1.0, -1.0, 1.0][:m])
    base = lattice.grid(m, 0, 2 if m == 2 else 1)
    pts = [p * step + off for p in base]
    L = len(pts)
    # exact dominance between lattice points, once
    tiny = 1e-12 * max(1.0, sc)
    Dp = [[None] * L for _ in range(L)]
    near = [[False] * L for _ in range(L)]
    from fractions import Fraction as F

    for i in range(L):
        for j in range(L):
            d = pts[j] - pts[i]
            ok = True
            for w in W:
                v = sum(F(float(w[k])) * F(float(d[k])) for k in range(m))
                if v < 0:
                    ok = False
                if not intW and abs(float(v)) <= tiny and (i != j):
                    near[i][j] = True
            Dp[i][j] = ok  # j dominates i
    outcomes = set()
    for n in range(1, N + 1):
        for seq in itertools.product(range(L), repeat=n):
            if only is not None and list(seq) != only:
                continue
            if any(near[a][b] for a in seq for b in seq):
                res["boundary_skipped"] += 1
                continue
            V = [pts[a] for a in seq]
            D = [[Dp[a][b] for b in seq] for a in seq]
            case = {"mode": "seqs", "spec": spec, "m": m, "N": N, "sc": sc, "seed": seed, "seq": list(seq), "far": far}
            v = _oracle_check(order, spec, V, D, res, case)
            if n >= 2:
                res["nontrivial"] += 1
            if v is not None:
                res["violations"].append(v)
                if len(res["violations"]) >= 3:
                    return
            else:
                outcomes.add((n, tuple(sorted(set(i for i in range(n) if not any(D[i][j] and not D[j][i] for j in range(n)))))))
    res["outcomes"].append(f"{cones.name(spec)}:{len(outcomes)}")
    res["samples"].append({"cone": cones.name(spec), "scale": sc, "example_sequence": [pts[a].tolist() for a in (0, L - 1, 1)][: min(3, N)]})


def _grammar(m):
    """Pattern grammar of longer inputs, generated exhaustively (no randomness): words over
    {c: next point of a dominated chain, C: next point of a dominating chain, d: duplicate of the
    previous point, a: antichain step, z: a point dominated by everything so far}"""
    words = []
    for n in (6, 8, 12):
        for pat in itertools.product("cCda", repeat=3):
            w = (pat * ((n + 2) // 3))[:n]
            words.append("".join(w))
    words += ["d" * 8, "c" * 10, "C" * 10, "a" * 9, "zC" * 5, "Cz" * 5, "ddCddcdd", "aadaadaad", "CCCCdddd", "ccccdddd"]
    return sorted(set(words))


def _word_points(word, m):
    p = np.zeros(m)
    pts = [p.copy()]
    lo = np.zeros(m)
    hi = np.zeros(m)
    k = 0
    for ch in word:
        if ch == "c":
            p = lo - 1.0
        elif ch == "C":
            p = hi + 1.0
        elif ch == "d":
            p = pts[-1].copy()
        elif ch == "a":
            k += 1
            p = np.zeros(m)
            p[0] = hi[0] + k
            p[1] = lo[1] - k
        elif ch == "z":
            p = lo - 2.0
        pts.append(p.copy())
        lo = np.minimum(lo, p)
        hi = np.maximum(hi, p)
    return pts


def _run_grammar(spec, m, sc, seed, res, only=None):
    core.import_vopy()
    order = cones.make_order(spec)
    W = order.ordering_cone.W
    intW = bool(np.all(W == np.round(W)))
    for word in _grammar(m):
        if only is not None and word != only:
            continue
        V = [p * sc for p in _word_points(word, m)]
        n = len(V)
        D = oracles.dom_matrix_exact(W, V)
        if not intW:
            nearb = False
            for i in range(n):
                for j in range(n):
                    d = np.asarray(V[j]) - np.asarray(V[i])
                    if np.any(d != 0) and np.any(np.abs(W @ d) <= 1e-12):
                        nearb = True
            if nearb:
                res["boundary_skipped"] += 1
                continue
        case = {"mode": "grammar", "spec": spec, "m": m, "sc": sc, "seed": seed, "word": word}
        v = _oracle_check(order, spec, V, D, res, case)
        res["nontrivial"] += 1
        if v is not None:
            res["violations"].append(v)
            if len(res["violations"]) >= 3:
                return
    res["samples"].append({"cone": cones.name(spec), "grammar_word": "cCd" * 4})


def run_unit(unit):
    res = core.new_result()
    if unit[0] == "seqs":
        _run_seq_space(unit[1], unit[2], unit[3], unit[4], unit[5], res, far=(unit[6] if len(unit) > 6 else 0))
    else:
        _run_grammar(unit[1], unit[2], unit[3], unit[4], res)
    return res


def _spec(s):
    return tuple(tuple(tuple(r) for r in x) if isinstance(x, list) else x for x in s)


def replay_case(case):
    res = core.new_result()
    if case["mode"] == "seqs":
        _run_seq_space(_spec(case["spec"]), case["m"], case["N"], case["sc"], case["seed"], res, only=list(case["seq"]), far=case.get("far", 0))
    else:
        _run_grammar(_spec(case["spec"]), case["m"], case["sc"], case["seed"], res, only=case["word"])
    return res["violations"]


def finish(ctx, merged):
    if merged["nontrivial"] < 1000:
        return {"harness_error": "vacuous: too few non-trivial sequences"}
    return {}
